#!/venv/bin/python
"""Regenerates /verif/MANIFEST.json from the tables below (run by hand)."""
import json
import os
import sys

HERE = os.path.dirname(os.path.dirname(os.path.abspath(__file__)))
sys.path.insert(0, HERE)
sys.path.insert(0, "/repo/src")

CLAIMS = {
    "C01": ("exploration", "3.9, 4 (C01)",
            "Seeded simulated histories on real cooler/h5py: every acknowledged create (all input forms, chunkings with "
            "empty chunks, dtypes, extra columns, filters, metadata) is re-read from disk after it and after every later "
            "operation on the file (neighbour creates, failed/faulted neighbour creates, cp/mv/ln) and on process-kill "
            "snapshots, and compared exactly with a reference model. The input quantifier itself is sampled (seeded "
            "model-based generation inside the simulator), hence exploration level.",
            "trusts h5py/libhdf5 and pandas; exactness of the model (integers and dyadic floats); sampling only",
            "deterministic simulation: seeded operation histories + fault injection vs reference model (read-your-writes oracle)"),
    "C15": ("exploration", "3.9, 4 (C15)",
            "Seeded histories of create(a|w)/cp/mv/ln(hard, soft, external)/plant/failed creates over up to three files "
            "against an HDF5 link-tree reference model; after every step listing, recognition truth table, read-back of "
            "every path, link structure/object identity and planted unrelated content are compared with the model.",
            "trusts h5py/libhdf5; histories that libhdf5 itself cannot execute (link cycles, copies through external-link chains) are not generated",
            "deterministic simulation: seeded operation histories (with failed operations as steps) vs reference model"),
}

NA = {
    "C03": "pure function of (stored file, window, options): no schedule, clock, fault, interleaving or history can change a range query's value; only input enumeration could decide it, which is not simulation",
    "C04": "region -> bin extent is integer arithmetic / searchsorted on the bin table: a pure function of its input",
    "C05": "record -> pixel assignment (sanitize/aggregate) is a pure DataFrame-to-DataFrame function; record order and chunking are input permutations, not schedules",
    "C10": "which bins are masked and how flat the marginals are is a numerical function of (matrix, options); its schedule/chunking aspect is C11, which is claimed",
    "C12": "a balanced read is raw x weight[i] x weight[j]: a pure function of stored columns and the window",
    "C14": "table slicing and annotate are pure functions of stored rows and arguments",
    "C16": "text dump/load/cload agreement is about option and column-layout handling in single-threaded code; no fault, ordering or interleaving is quantified",
    "C19": "string parsing: pure function of the input string",
    "C20": "binnify/get_binsize/get_chromsizes are pure table functions (a get_binsize defect was nevertheless found and repaired through C02/C08)",
}


def main():
    from coolsim import checks

    man = {
        "version": 1,
        "setup_cmd": "./setup.sh",
        "hooks": {
            "guard": "COOLER_VERIF (unused: no source hook exists; every seam is a module or class attribute patched from /verif/coolsim/seams.py)",
            "enable": "nothing to build: checks import cooler from /repo/src (PYTHONPATH) and patch the seams in-process",
            "baseline_off_cmd": "cd /repo && /venv/bin/python -m pytest -ra -q -p no:cacheprovider --timeout=900 --continue-on-collection-errors",
            "source_commits": [],
            "add_only": True,
        },
        "engines": [
            {"name": "store", "path": "coolsim/store_engine.py",
             "serves_properties": sorted(p for p, c in checks.PROPS.items() if c["engine"] == "store" and p in CLAIMS),
             "kind_free_text": "deterministic simulation of operation histories with fault injection (F1-F6), process-kill snapshots (F5) and a reference model, under the seeded baton-passing kernel"},
        ],
        "checks": [],
        "not_applicable": [{"property_id": k, "reason": v} for k, v in sorted(NA.items())],
        "notes": "See DESIGN.md. One seed = one exactly repeatable execution; violations are minimised and written to replays/.",
    }
    for pid in sorted(CLAIMS):
        if pid not in checks.PROPS:
            continue
        level, ref, text, note, tech = CLAIMS[pid]
        man["checks"].append({
            "property_id": pid,
            "quick_cmd": "./check %s" % pid,
            "thorough_cmd": "./check %s --tier thorough" % pid,
            "evidence_file": "/verif/evidence/%s.json" % pid,
            "replay_cmd_template": "./check %s --replay {path}" % pid,
            "engine": checks.PROPS[pid]["engine"],
            "level_claimed": {"category": level, "text": text, "design_ref": ref},
            "level_note": note,
            "technique": tech,
        })
    with open(os.path.join(HERE, "MANIFEST.json"), "w") as f:
        json.dump(man, f, indent=1)
    print("wrote MANIFEST.json with", len(man["checks"]), "checks,", len(man["not_applicable"]), "n/a")


if __name__ == "__main__":
    main()
