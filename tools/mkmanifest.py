#!/venv/bin/python
"""Regenerates /verif/MANIFEST.json from the tables below (run by hand)."""
import json
import os
import sys

HERE = os.path.dirname(os.path.dirname(os.path.abspath(__file__)))
sys.path.insert(0, HERE)
sys.path.insert(0, "/repo/src")

SIM = "deterministic simulation: "
CLAIMS = {
    "C01": ("exploration", "4 (C01)",
            "Seeded simulated histories on real cooler/h5py: every acknowledged create (all input forms, chunkings with "
            "empty chunks, dtypes, extra columns, filters, metadata) is re-read from disk after it and after every later "
            "operation on the file (neighbour creates, failed/faulted neighbour creates, cp/mv/ln) and on process-kill "
            "snapshots, and compared exactly with a reference model. The input quantifier itself is sampled (seeded "
            "model-based generation inside the simulator), hence exploration level.",
            "trusts h5py/libhdf5 and pandas; exactness of the model (integers and dyadic floats); sampling only",
            SIM + "seeded operation histories + fault injection vs reference model (read-your-writes oracle)"),
    "C02": ("exploration", "4 (C02)",
            "After every operation of every simulated history (create, unordered ingestion, `cooler load`, merge, coarsen "
            "incl. worker pools, zoomify, scool, chains of them, several collections per file) and on every process-kill "
            "snapshot where the destination is recognised, every structural invariant of the schema is re-derived from the "
            "raw HDF5 datasets by independent code; the run-length indexer's block size is a per-run knob (1..64 rows).",
            "trusts h5py/libhdf5; one >1e6-pixel end-to-end creation crosses the real 1e6-row block boundary in both tiers (a second size in the thorough tier)",
            SIM + "invariant checked after every event of seeded histories and on crash snapshots"),
    "C06": ("exploration", "4 (C06)",
            "Seeded record multisets partitioned into chunks (empty, repeating pixels, unsorted with ensure_sorted), "
            "re-partitioned and re-ordered copies of the same multiset, merge buffer from 1 and fan-in from 1 (single-pass "
            "and recursive merge), through the API and `cooler load`; results compared exactly with the model's per-pixel "
            "sum; no temporary file may outlive a successful run even while a frame of the call is referenced.",
            "chunk arrival order is a seeded permutation (the ingestion itself is single-process); trusts h5py/pandas",
            SIM + "seeded histories vs exact aggregate model; arrival order and buffer/fan-in knobs randomised per run"),
    "C07": ("exploration", "4 (C07)",
            "merge is a history operation over whatever earlier operations left (empty/disjoint/identical supports, k>=1, "
            "repeated inputs, nested merges feeding merges, mixed dtypes, aggregations, buffer from 1); every result equals "
            "the exact model aggregate, so order-independence and associativity are checked on every nested merge; "
            "incompatible inputs must be refused; an aggregate that does not fit must raise; the recorded total is checked.",
            "merge output is never written into a file holding an input (libhdf5 refuses that; covered under C13 as a failure)",
            SIM + "seeded operation histories vs exact aggregate model"),
    "C08": ("exploration", "4 (C08)",
            "coarsen_cooler / `cooler coarsen` with 1-4 simulated worker processes under SimPool/SimLock and the HDF5 "
            "file-lock model, same-file and cross-file, every interleaving decided by the seeded scheduler (8 policies): "
            "no reader/writer overlap, no deadlock, result equal to the model's block aggregation for every schedule, "
            "chunk size and worker count; chains and merge/coarsen interleavings as histories.",
            "workers are threads with dill-copied tasks (module globals shared); flock model validated against real processes",
            SIM + "seeded schedules over real worker code (baton-passing threads) + reference model"),
    "C09": ("exploration", "4 (C09)",
            "zoomify_cooler / `cooler zoomify` with one or two consistent bases, arbitrary resolution sets (any order, "
            "with/without bases, non-derivable members), 1-4 simulated workers reading and writing the same file under the "
            "seeded scheduler: listing, each level equal to direct coarsening of a base, multires recognition, refusal of "
            "non-derivable sets, no flock conflict, no deadlock; one list object of resolutions shared by two calls; the legacy "
            "layout (`legacy_zoomify`, `zoomify --legacy`): every integer-labelled level equals the base coarsened by 2**d.",
            "two bases are generated as coarsenings of one ancestor (consistent data), as real use supplies them",
            SIM + "seeded schedules over real worker code + reference model"),
    "C11": ("exploration", "4 (C11)",
            "balance_cooler and `cooler balance` under chunk sizes 1..nnz+1/None x builtin/eager/SimPool map, imap, "
            "imap_unordered x 2-4 workers x scheduler policies (reverse, rotate, starve...) x use_lock: NaN mask identical, "
            "weights/scale/var within 1e-9 of the unchunked sequential run, same sweep count (knife-edge relaxation only at "
            "var~tol), a repeat with the same schedule bitwise identical, visit-once through the real split(), and agreement "
            "with a dense numpy implementation of the documented procedure; thread pools and stdlib-pickle process pools; "
            "the CLI with a blacklist BED file; the path rewritten between balancing runs of one process; an open of the file "
            "failing once inside a run (driver or worker): the run may fail, it never returns other weights.",
            "the dense reference is this repository's reading of the documented procedure; one known finding (ignore_diags=0)",
            SIM + "seeded completion orders over real pipeline code vs sequential reference"),
    "C13": ("fault_enumeration", "4 (C13)",
            "Per workload (populated multi-collection file + one producer: ordered/unordered create, merge, coarsen with or "
            "without workers, scool) every F1 placement (7 kinds x chunk x first/mid/last), every F2 index, every F4 open "
            "index, every F9 attribute-write index, every F10 flush index and every F6 task index is injected, F3 interrupts at stratified line events (all of them in the "
            "thorough tier for small workloads), and the file is examined as a restarted process would see it after every "
            "close (F5): destination not recognised unless complete, neighbours read back unchanged, then the operation is "
            "re-issued fault-free and must succeed.",
            "process kill modelled at close boundaries; byte-level faults below libhdf5 not modelled; workloads sampled, placements enumerated",
            SIM + "fault enumeration (F0-F10) + crash-boundary snapshots over seeded workloads"),
    "C15": ("exploration", "4 (C15)",
            "Seeded histories of create(a|w)/cp/mv/ln(hard, soft, external)/plant/failed creates over up to three files "
            "against an HDF5 link-tree reference model; after every step listing, recognition truth table, read-back of "
            "every path, link structure/object identity and planted unrelated content are compared with the model.",
            "trusts h5py/libhdf5; histories that libhdf5 itself cannot execute (link cycles, copies through external-link chains) are not generated",
            SIM + "seeded operation histories (with failed operations as steps) vs reference model"),
    "C17": ("exploration", "4 (C17)",
            "create_scool as a history of append-creates: 1-5 cells with arbitrary names and matrices, shared or per-cell "
            "bin tables; every cell reads back exactly, listing/recognition, shared bin datasets are the same HDF5 objects; "
            "also after a later cell's creation fails (F1/F2/F3/F4), and after later appends/copies on the file.",
            "the input quantifier itself is sampled; trusts h5py/libhdf5",
            SIM + "seeded histories + fault injection on later cells vs reference model"),
    "C18": ("exploration", "4 (C18)",
            "rename_chroms through long-lived and fresh Cooler objects, partial maps, rotations, renaming back, chains, enum "
            "and integer-encoded chromosome columns, through hard/soft aliases, interleaved with cp/ln/merge/coarsen/restart: "
            "names everywhere, lookups by new name equal the old name's answers, everything else unchanged, aliases see it, copies do not.",
            "only the object handed to rename_chroms must be fresh immediately; scool cells are not renamed (see DESIGN)",
            SIM + "seeded operation histories vs reference model with object identity"),
}

NA = {
    "C03": "pure function of (stored file, window, options): no schedule, clock, fault, interleaving or history can change a range query's value; only input enumeration could decide it, which is not simulation",
    "C04": "region -> bin extent is integer arithmetic / searchsorted on the bin table: a pure function of its input",
    "C05": "record -> pixel assignment (sanitize/aggregate) is a pure DataFrame-to-DataFrame function; record order and chunking are input permutations, not schedules",
    "C10": "which bins are masked and how flat the marginals are is a numerical function of (matrix, options); its schedule/chunking aspect is C11, which is claimed",
    "C12": "a balanced read is raw x weight[i] x weight[j]: a pure function of stored columns and the window",
    "C14": "table slicing and annotate are pure functions of stored rows and arguments",
    "C16": "text dump/load/cload agreement is about option and column-layout handling in single-threaded code; no fault, ordering or interleaving is quantified",
    "C19": "string parsing: pure function of the input string",
    "C20": "binnify/get_binsize/get_chromsizes are pure table functions (a get_binsize defect was nevertheless found and repaired through C02/C08)",
}


def main():
    from coolsim import checks

    man = {
        "version": 1,
        "setup_cmd": "./setup.sh",
        "hooks": {
            "guard": "COOLER_VERIF (unused: no source hook exists; every seam is a module or class attribute patched from /verif/coolsim/seams.py)",
            "enable": "nothing to build: checks import cooler from /repo/src (PYTHONPATH) and patch the seams in-process",
            "baseline_off_cmd": "cd /repo && /venv/bin/python -m pytest -ra -q -p no:cacheprovider --timeout=900 --continue-on-collection-errors",
            "source_commits": [],
            "add_only": True,
        },
        "engines": [
            {"name": "store", "path": "coolsim/store_engine.py",
             "serves_properties": sorted(p for p, c in checks.PROPS.items() if c["engine"] == "store" and p in CLAIMS),
             "kind_free_text": "deterministic simulation of operation histories with fault injection (F1-F6), process-kill snapshots (F5) and a reference model, under the seeded baton-passing kernel (kernel.py, seams.py); pooled operations run real worker code on simulated processes"},
            {"name": "fault-enumerator", "path": "coolsim/c13.py", "serves_properties": ["C13"],
             "kind_free_text": "per-workload enumeration of fault placements (F1, F2, F4, F6), stratified or exhaustive F3 interrupts, F5 snapshots at every close; runs on the store engine"},
            {"name": "balance", "path": "coolsim/balance_engine.py", "serves_properties": ["C11"],
             "kind_free_text": "real balance_cooler / `cooler balance` under seeded completion orders, chunk sizes and map kinds vs the sequential unchunked run and a dense reference; an operation of the store engine"},
        ],
        "checks": [],
        "not_applicable": [{"property_id": k, "reason": v} for k, v in sorted(NA.items())],
        "notes": "See DESIGN.md. One seed = one exactly repeatable execution; violations are minimised and written to replays/.",
    }
    for pid in sorted(CLAIMS):
        if pid not in checks.PROPS:
            continue
        level, ref, text, note, tech = CLAIMS[pid]
        man["checks"].append({
            "property_id": pid,
            "quick_cmd": "./check %s" % pid,
            "thorough_cmd": "./check %s --tier thorough" % pid,
            "evidence_file": "/verif/evidence/%s.json" % pid,
            "replay_cmd_template": "./check %s --replay {path}" % pid,
            "engine": checks.PROPS[pid]["engine"],
            "level_claimed": {"category": level, "text": text, "design_ref": ref},
            "level_note": note,
            "technique": tech,
        })
    with open(os.path.join(HERE, "MANIFEST.json"), "w") as f:
        json.dump(man, f, indent=1)
    print("wrote MANIFEST.json with", len(man["checks"]), "checks,", len(man["not_applicable"]), "n/a")


if __name__ == "__main__":
    main()
