#!/bin/sh
# tools/confirm_seeded.sh <PROP> <k> [checks...]
# Confirms a sub-agent mutation (/tmp/wt_<PROP>/mutation/m<k>) in a fresh scratch worktree:
#   demo fails with the patch, passes without; the existing suite passes with the patch;
# then stores it as /verif/seeded/<PROP>-m<k>/ and runs the named checks against the patched worktree.
set -u
P="$1"; K="$2"; shift 2
# ROUND=2 takes the second-round worktrees /tmp/w2_<PROP> and stores as <PROP>-r2m<k>
if [ "${ROUND:-1}" = 2 ]; then
  SRC="/tmp/w2_$P/mutation/m$K"; TAG="r2m$K"
elif [ "${ROUND:-1}" = 3 ]; then
  SRC="/tmp/w3_$P/mutation/m$K"; TAG="r3m$K"
elif [ "${ROUND:-1}" = 4 ]; then
  SRC="/tmp/w4_$P/mutation/m$K"; TAG="r4m$K"
elif [ "${ROUND:-1}" = 5 ]; then
  SRC="/tmp/w5_$P/mutation/m$K"; TAG="r5m$K"
elif [ "${ROUND:-1}" = 6 ]; then
  SRC="/tmp/w6_$P/mutation/m$K"; TAG="r6m$K"
elif [ "${ROUND:-1}" = 7 ]; then
  SRC="/tmp/w7_$P/mutation/m$K"; TAG="r7m$K"
else
  SRC="/tmp/wt_$P/mutation/m$K"; TAG="m$K"
fi
WT="/tmp/cf_${P}_$TAG"
OUT="/verif/seeded/$P-$TAG"
LOG="/dev/shm/confirm_${P}_$TAG.log"
: > "$LOG"
git -C /repo worktree remove --force "$WT" >/dev/null 2>&1
rm -rf "$WT"
git -C /repo worktree add -q --detach "$WT" HEAD || exit 2
export TMPDIR="/dev/shm/cf_tmp_${P}_$K"; rm -rf "$TMPDIR"; mkdir -p "$TMPDIR"
cd "$WT" || exit 2
PYTHONPATH="$WT/src" timeout 1200 /venv/bin/python "$SRC/demo.py" >>"$LOG" 2>&1; clean=$?
git apply "$SRC/patch.diff" >>"$LOG" 2>&1 || { echo "$P m$K: patch does not apply"; exit 2; }
PYTHONPATH="$WT/src" timeout 1200 /venv/bin/python "$SRC/demo.py" >>"$LOG" 2>&1; mutated=$?
PYTHONPATH="$WT/src" timeout 1500 /venv/bin/python -m pytest -q -p no:cacheprovider --timeout=900 -x --deselect "tests/test_create.py::test_roundtrip" >"$LOG.pytest" 2>&1; suite=$?
tail -1 "$LOG.pytest" >>"$LOG"
echo "$P $TAG: demo clean=$clean mutated=$mutated suite_exit=$suite ($(tail -1 "$LOG.pytest"))"
if [ "$clean" = 0 ] && [ "$mutated" != 0 ] && [ "$suite" = 0 ]; then
  mkdir -p "$OUT"
  cp "$SRC/patch.diff" "$OUT/patch.diff"; cp "$SRC/demo.py" "$OUT/demo.py"; cp "$SRC/NOTES.md" "$OUT/NOTES.md" 2>/dev/null
  echo "confirmed" > "$OUT/.confirmed"
  for C in "$@"; do
    t0=$(date +%s)
    COOLSIM_REPO="$WT" timeout 3600 /verif/check "$C" --no-evidence --fail-fast --no-shrink >"$LOG.$C" 2>&1
    rc=$?
    echo "   check $C: exit=$rc $(grep -c '^VIOLATION' "$LOG.$C") violation line(s) in $(( $(date +%s) - t0 ))s: $(grep '^violation' "$LOG.$C" | head -2 | cut -c1-160 | tr '\n' '|')"
  done
else
  echo "   NOT CONFIRMED (see $LOG)"
fi
cd /
git -C /repo worktree remove --force "$WT" >/dev/null 2>&1
rm -rf "$WT" "$TMPDIR"
