#!/usr/bin/env python3
"""tools/mkmeta.py <json-file>: writes seeded/<id>/meta.json for each entry of a list
[{id, property, round, breaks, needs, caught_by:[..], caught_as:{..}, strengthening}]"""
import json, os, sys
HERE = os.path.dirname(os.path.dirname(os.path.abspath(__file__)))
WRITTEN = {
    4: "independent sub-agent given only the property text and a scratch worktree; fourth round: told which ideas of three rounds had been used and what kind of tool it was up against",
    7: "independent sub-agent (seventh round, fresh agents) given only the text of the property and its own scratch worktree, nothing from /verif; this round asked that m1 need an interleaving/ordering or a failure at a particular point, and m2 two cooperating sites or state surviving between operations (not a path-keyed cache)",
    6: "independent sub-agent (sixth round, fresh agents) given only the text of the property (statement and quantifier) and its own scratch worktree of /repo; nothing from /verif",
    5: "independent sub-agent given only the text of the property (statement and quantifier) and its own scratch worktree of /repo; nothing from /verif",
}
for e in json.load(open(sys.argv[1])):
    d = os.path.join(HERE, "seeded", e["id"])
    assert os.path.isdir(d), d
    r = e["round"]
    meta = {
        "id": e["id"], "property": e["property"], "written_by": WRITTEN[r],
        "breaks": e["breaks"], "needs_to_manifest": e["needs"],
        "confirmed": "tools/confirm_seeded.sh (ROUND=%d): fresh scratch worktree of /repo HEAD under /tmp; demo.py exits 0 on the clean tree and 1 with patch.diff applied; full pytest suite (test_roundtrip deselected, private TMPDIR) passes with the patch; then `COOLSIM_REPO=<worktree> ./check <ID> --fail-fast --no-shrink` (tools/check_seeded.sh for re-checks after strengthening); worktree removed afterwards" % r,
        "caught_by": e["caught_by"], "caught_as": e.get("caught_as", {}), "strengthening": e.get("strengthening", ""),
    }
    json.dump(meta, open(os.path.join(d, "meta.json"), "w"), indent=1)
    print("wrote", e["id"])
