#!/bin/sh
# tools/check_seeded.sh <seeded-id> <checks...> : run checks against a stored seeded change (scratch worktree, removed afterwards)
ID="$1"; shift
WT="/tmp/cs_$ID"
git -C /repo worktree remove --force "$WT" >/dev/null 2>&1; rm -rf "$WT"
git -C /repo worktree add -q --detach "$WT" HEAD || exit 2
git -C "$WT" apply "/verif/seeded/$ID/patch.diff" || { echo "$ID: patch does not apply"; exit 2; }
for C in "$@"; do
  t0=$(date +%s)
  COOLSIM_REPO="$WT" timeout 3600 /verif/check "$C" --no-evidence --fail-fast --no-shrink > "/dev/shm/cs_${ID}_$C.log" 2>&1
  rc=$?
  echo "$ID check $C: exit=$rc in $(( $(date +%s) - t0 ))s: $(grep '^violation' "/dev/shm/cs_${ID}_$C.log" | head -2 | cut -c1-150 | tr '\n' '|')"
done
git -C /repo worktree remove --force "$WT" >/dev/null 2>&1; rm -rf "$WT"
