import sys

from coolsim import runner

if __name__ == "__main__":
    sys.exit(runner.main())
