"""Deterministic simulation kernel: baton-passing simulated processes.

One `Sim` is active per OS process at a time (module global `SIM`).  The
driver ("main") runs in the calling thread; every other simulated process is
a real Python thread that only ever runs while it holds the baton.  Which
process runs next is decided at *yield points* by a seeded scheduler, never
by the OS.  Every decision is recorded so that a run can be replayed from its
choice list alone.
"""
from __future__ import annotations

import hashlib
import threading

SIM = None  # the active simulation (or None: all seams pass through)


class SimAbort(BaseException):
    """Raised inside a parked simulated process when the run is torn down."""


class SimDeadlock(Exception):
    """No simulated process is runnable although some are unfinished."""


class StepLimit(Exception):
    """The per-run cap on scheduler steps was exceeded."""


class Proc:
    __slots__ = ("pid", "name", "ev", "done", "pred", "thread", "waitdesc", "exc", "gview")

    def __init__(self, pid, name):
        self.gview = None   # forked process: its own copies of the tracked module globals
        self.pid = pid
        self.name = name
        self.ev = threading.Event()
        self.done = False
        self.pred = None
        self.thread = None
        self.waitdesc = None
        self.exc = None

    def runnable(self):
        if self.done:
            return False
        p = self.pred
        return True if p is None else bool(p())


POLICIES = (
    "uniform",
    "sticky",
    "starve",
    "reverse",
    "rotate",
    "main-first",
    "workers-first",
    "fifo",
)


class Scheduler:
    """Chooses the index of the next process among the sorted runnable list."""

    def __init__(self, rng, policy="uniform", replay=None, param=None):
        self.rng = rng
        self.policy = policy
        self.replay = list(replay) if replay is not None else None
        self.rpos = 0
        self.choices = []
        self.param = param
        self.rot = 0
        self.nested = None          # a sub-replay (repeat-with-same-schedule checks)
        self.nested_record = None   # choices made since the caller reset it

    def choose(self, runnable, cur):
        n = len(runnable)
        if n == 1:
            return 0
        if self.nested is not None:
            c = self.nested.pop(0) if self.nested else 0
            return c if 0 <= c < n else 0
        c = self._choose(runnable, cur, n)
        if self.nested_record is not None:
            self.nested_record.append(c)
        return c

    def draw(self, n):
        """A recorded random integer in [0, n): simulated delays (e.g. a polling thread's sleep)
        are part of the schedule and replay with it."""
        if self.nested is not None:
            c = self.nested.pop(0) if self.nested else 0
            return c % n
        if self.replay is not None:
            if self.rpos < len(self.replay):
                c = self.replay[self.rpos] % n
                self.rpos += 1
            else:
                c = 0
        else:
            c = self.rng.randrange(n)
        self.choices.append(c)
        if self.nested_record is not None:
            self.nested_record.append(c)
        return c

    def _choose(self, runnable, cur, n):
        if self.replay is not None:
            if self.rpos < len(self.replay):
                c = self.replay[self.rpos]
                self.rpos += 1
                if not (0 <= c < n):
                    c = 0
            else:
                c = 0
            self.choices.append(c)
            return c
        pol = self.policy
        r = self.rng
        if pol == "uniform":
            c = r.randrange(n)
        elif pol == "sticky":
            idx = [k for k, p in enumerate(runnable) if p is cur]
            if idx and r.random() < 0.8:
                c = idx[0]
            else:
                c = r.randrange(n)
        elif pol == "starve":
            # never pick the starved worker while others are runnable
            victim = self.param
            cand = [k for k, p in enumerate(runnable) if p.name != victim]
            c = cand[r.randrange(len(cand))] if cand else 0
        elif pol == "reverse":
            c = n - 1 if r.random() < 0.9 else r.randrange(n)
        elif pol == "rotate":
            self.rot += 1
            c = self.rot % n
        elif pol == "main-first":
            c = 0 if r.random() < 0.9 else r.randrange(n)
        elif pol == "workers-first":
            cand = [k for k, p in enumerate(runnable) if p.pid != 0]
            if cand and r.random() < 0.9:
                c = cand[r.randrange(len(cand))]
            else:
                c = r.randrange(n)
        elif pol == "fifo":
            c = 0
        else:  # pragma: no cover
            raise ValueError(pol)
        self.choices.append(c)
        return c


class Sim:
    def __init__(self, sched, max_steps=400000, log_enabled=True):
        self.sched = sched
        self.procs = []
        self.cur = None
        self.log = []
        self.seq = 0
        self.steps = 0
        self.max_steps = max_steps
        self.aborting = False
        self.deadlock = None
        self.log_enabled = log_enabled
        self.kinds = {}
        self.pools = []
        self.hooks = {}  # name -> callable, installed by engines (faults, snapshots)
        self.counters = {}
        self.namer = str
        self.flock = None
        self.flock_conflicts = []
        main = Proc(0, "main")
        self.procs.append(main)
        self.cur = main
        self._tls = threading.local()
        self._tls.proc = main

    def procs_name(self, pid):
        return self.procs[pid].name if 0 <= pid < len(self.procs) else "?"

    # ------------------------------------------------------------------ log
    # ------------------------------------------------ fork isolation of module globals
    def track_globals(self, items):
        """items: list of (module, name).  From now on a forked process works on its own copy of
        these bindings (taken at fork time), as a real fork()ed worker would."""
        self._tracked = list(items)

    def fork_view(self, proc, copier):
        tracked = getattr(self, "_tracked", None)
        if not tracked:
            return
        view = {}
        for mod, name in tracked:
            try:
                view[(mod, name)] = copier(getattr(mod, name))
            except Exception:
                view[(mod, name)] = getattr(mod, name)
        proc.gview = view

    def _swap_globals(self, frm, to):
        if frm is to or not getattr(self, "_tracked", None):
            return
        fv = frm.gview if frm is not None else None
        tv = to.gview if to is not None else None
        if fv is None and tv is None:
            return
        main_view = self.__dict__.setdefault("_main_view", {})
        for mod, name in self._tracked:
            cur = getattr(mod, name, None)
            # save the binding of the process that stops running
            (fv if fv is not None else main_view)[(mod, name)] = cur
            # install the binding of the process that starts running
            src = tv if tv is not None else main_view
            if (mod, name) in src:
                setattr(mod, name, src[(mod, name)])

    def emit(self, kind, detail=None):
        if self.aborting or not self.log_enabled:
            return
        me = self.me()
        self.seq += 1
        self.log.append((self.seq, me.name if me else "?", kind, detail))
        self.kinds[kind] = self.kinds.get(kind, 0) + 1

    def count(self, name, n=1):
        self.counters[name] = self.counters.get(name, 0) + n

    def digest(self):
        h = hashlib.sha256()
        for ev in self.log:
            h.update(repr(ev).encode())
        return h.hexdigest()

    def trace_signature(self):
        """Hash of the (proc, kind) sequence: the 'distinct interleaving' measure."""
        h = hashlib.sha256()
        for ev in self.log:
            h.update(ev[1].encode())
            h.update(b"/")
            h.update(ev[2].encode())
            h.update(b";")
        return h.hexdigest()[:16]

    # ---------------------------------------------------------------- procs
    def me(self):
        return getattr(self._tls, "proc", None)

    def spawn(self, name, fn):
        p = Proc(len(self.procs), name)
        self.procs.append(p)

        def body():
            self._tls.proc = p
            p.ev.wait()
            p.ev.clear()
            try:
                if not self.aborting:
                    fn()
            except SimAbort:
                pass
            except BaseException as e:  # a worker loop must not die silently
                p.exc = e
            finally:
                p.done = True
                p.pred = None
                self._handoff_from_finished(p)

        t = threading.Thread(target=body, name="sim-" + name, daemon=True)
        p.thread = t
        t.start()
        return p

    def _runnable(self):
        return [p for p in self.procs if p.runnable()]

    def _handoff_from_finished(self, me):
        if self.aborting:
            return
        runnable = self._runnable()
        if not runnable:
            # everyone else is blocked: wake main with a deadlock verdict
            self._declare_deadlock()
            return
        nxt = runnable[self.sched.choose(runnable, me)]
        self._swap_globals(me, nxt)
        self.cur = nxt
        nxt.ev.set()

    def _declare_deadlock(self):
        blocked = [(p.name, p.waitdesc) for p in self.procs if not p.done]
        self.deadlock = blocked
        self.aborting = True
        for p in self.procs:
            if not p.done:
                p.ev.set()

    def step(self, kind=None, detail=None, pred=None, waitdesc=None):
        """Yield point.  Optionally logs an event, optionally blocks until
        `pred()` holds.  Returns when this process has been chosen again."""
        me = self.me()
        if me is None:
            return
        if self.aborting:
            if me.pid == 0:
                if self.deadlock is not None:
                    raise SimDeadlock(repr(self.deadlock))
                return
            raise SimAbort()
        if kind is not None:
            self.emit(kind, detail)
        self.steps += 1
        if self.steps > self.max_steps:
            self.aborting = True
            for p in self.procs:
                if not p.done and p is not me:
                    p.ev.set()
            if me.pid == 0:
                raise StepLimit(self.steps)
            raise SimAbort()
        me.pred = pred
        me.waitdesc = waitdesc
        runnable = self._runnable()
        if not runnable:
            self._declare_deadlock()
            me.ev.clear()
            if me.pid == 0:
                me.pred = None
                raise SimDeadlock(repr(self.deadlock))
            raise SimAbort()
        nxt = runnable[self.sched.choose(runnable, me)]
        if nxt is me:
            me.pred = None
            me.waitdesc = None
            return
        self._swap_globals(me, nxt)
        self.cur = nxt
        nxt.ev.set()
        me.ev.wait()
        me.ev.clear()
        if self.aborting:
            me.pred = None
            if me.pid == 0:
                if self.deadlock is not None:
                    raise SimDeadlock(repr(self.deadlock))
                return
            raise SimAbort()
        me.pred = None
        me.waitdesc = None

    # ------------------------------------------------------------- teardown
    def drain(self):
        """Called by main after an operation: let runnable workers finish
        (pools are treated as terminated), then abort whatever is blocked."""
        me = self.me()
        assert me.pid == 0
        for pool in self.pools:
            pool._terminated = True
        if not self.aborting:
            others = [p for p in self.procs if p.pid != 0]

            def quiet():
                return not any(p.runnable() for p in others)

            try:
                self.step(pred=quiet, waitdesc="drain")
            except SimDeadlock:
                pass
        self.kill_all()

    def kill_all(self):
        self.aborting = True
        for p in self.procs:
            if p.pid != 0 and not p.done:
                p.ev.set()
        for p in self.procs:
            if p.pid != 0 and p.thread is not None:
                p.thread.join(30)
                if p.thread.is_alive():  # pragma: no cover
                    raise RuntimeError("simulated process %s did not unwind" % p.name)
        main = self.procs[0]
        main.ev.clear()
        main.pred = None
        # whatever process ran last: the driver's bindings are the ones in force afterwards
        mv = self.__dict__.get("_main_view")
        if mv and self.cur is not None and self.cur is not main and self.cur.gview is not None:
            for (mod, name), val in mv.items():
                setattr(mod, name, val)
        self.procs = [main]
        self.pools = []
        self.cur = main
        self.aborting = False


def activate(sim):
    global SIM
    SIM = sim


def deactivate():
    global SIM
    SIM = None
