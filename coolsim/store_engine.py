"""Store engine: executes one operation history against real cooler (real
h5py/libhdf5 on a scratch filesystem) under the simulator, keeps the reference
model in step, injects faults F1-F6 and takes F5 crash-boundary snapshots, and
evaluates the oracles after every operation.

Operation records are explicit JSON (all data inline): a history is its own
replay artefact.
"""
from __future__ import annotations

import gc
import glob
import hashlib
import os
import shutil
import sys
import warnings

import h5py
import numpy as np
import pandas as pd

from . import kernel, oracles, seams
from .model import (FS, INDET, RESERVED, Coll, Node, aggregate, bins_frame, coarsen_model,
                    cooler_bins, fits, pixel_frame, split)


class InjectedIOError(OSError):
    """F2/F4/F6: an injected I/O failure."""


F2_CLASSES = {"OSError": None, "EOFError": EOFError, "MemoryError": MemoryError, "RuntimeError": RuntimeError,
              "KeyboardInterrupt": KeyboardInterrupt, "GeneratorExit": GeneratorExit}


def f2_exception(fault, msg):
    cls = F2_CLASSES.get((fault or {}).get("exc", "OSError"))
    return InjectedIOError(5, msg) if cls is None else cls(msg)


class Skip(Exception):
    """The operation's precondition does not hold in the model (possible after
    shrinking dropped an earlier operation): skip it."""


def _dt(name):
    return np.dtype(name)


import re as _re


def natural_sorted(paths):
    """Independent natural sort: digit runs compare as numbers; names with equal keys keep the
    (alphabetical) order in which HDF5 iterates them."""
    def key(s_):
        return tuple(int(x) if x.isdigit() else x for x in _re.split(r"(\d+)", s_) if x)
    return sorted(sorted(paths), key=key)


def uri_of(path, fpath, slash=True):
    if path == "/":
        return fpath if slash else fpath + "::/"
    return fpath + "::" + (path if slash else path.lstrip("/"))


class StoreRun:
    def __init__(self, sim, scratch, snapshots=True, deep=True, verify_all=True):
        self.sim = sim
        self.S = scratch
        self.fs = FS()
        self.violations = []   # dicts: prop, oracle, op, detail
        self.snapshots_on = snapshots
        self.deep = deep
        self.live = {}
        self.stats = {}
        self.filehash = {}
        self.opidx = -1
        self.faults_fired = {}
        self.trace = []        # abstract-state signature per op
        self.snapdir = os.path.join(scratch, ".snap")
        os.makedirs(self.snapdir, exist_ok=True)
        self._snaps = []
        self._watch = None
        self._open_count = 0
        self._task_count = 0
        self._attr_count = 0
        self._iter_chunks_seen = 0
        self.last_tracer = None
        self.last_exc = None
        self.verify_all = verify_all

    # ------------------------------------------------------------------ utils
    def fpath(self, fid):
        return os.path.join(self.S, fid + ".cool")

    def stat(self, k, n=1):
        self.stats[k] = self.stats.get(k, 0) + n

    def fired(self, k):
        self.faults_fired[k] = self.faults_fired.get(k, 0) + 1

    def violate(self, prop, oracle, detail):
        self.violations.append({"prop": prop, "oracle": oracle, "op": self.opidx,
                                "detail": detail[:6] if isinstance(detail, list) else detail})

    def _hash(self, fid):
        p = self.fpath(fid)
        if not os.path.exists(p):
            return None
        h = hashlib.sha1()
        with open(p, "rb") as f:
            h.update(f.read())
        return h.hexdigest()

    # ------------------------------------------------------ model: placement
    def _place(self, fs, fid, path, node, mode="a"):
        """Model of `create()` putting `node` at path: mode w truncates the
        file; the root keeps foreign children/attributes; a nested path is
        unlinked and replaced."""
        if mode == "w" or fid not in fs.files:
            fs.files[fid] = Node()
        root = fs.files[fid]
        if path == "/":
            root.coll = node.coll
            root.dirty = node.dirty
            root.prop = getattr(node, "prop", None)
            root.verified = False
            for k in RESERVED:
                root.children.pop(k, None)
            return root
        parent, name = fs.parent_and_name(fid, path, create=True)
        if parent is None or parent.kind != "group":
            raise Skip("unreachable destination")
        parent.children[name] = ("h", node)
        return node

    def _fresh(self, coll, prop, dirty=False):
        n = Node()
        n.coll = coll
        n.dirty = dirty
        n.prop = prop
        n.verified = False
        return n

    def _failed_variants(self, fs_old, fid, path, mode):
        """Model states a creation at (fid, path) may leave when it stops
        after the destination group was (re)initialised."""
        out = []
        fs = fs_old.clone()
        if mode == "w" or fid not in fs.files:
            fs.files[fid] = Node()
        root = fs.files[fid]
        if path == "/":
            root.dirty = True
            if root.coll is not None:
                root.coll = INDET
            for k in RESERVED:
                root.children.pop(k, None)
            out.append(fs)
        else:
            n = self._fresh(None, None, dirty=True)
            self._place(fs, fid, path, n, "a")
            out.append(fs)
        return out

    # ------------------------------------------------------------ build input
    def _layout(self, op):
        lay = op["layout"]
        names = lay["names"]
        edges = lay["edges"]
        if isinstance(edges, str):
            # compact form "uniform:<nbins>:<width>" for one chromosome (large bin tables)
            # (comma-separated: one entry per chromosome)
            out_ = []
            for part in edges.split(","):
                _, nb, w = part.split(":")
                out_.append([k * int(w) for k in range(int(nb) + 1)])
            edges = out_
        bm = bins_frame(names, edges)
        lengths = [e[-1] for e in edges]
        return names, lengths, bm

    def _inject_f1(self, chunk, fault, nbins):
        ch = {k: list(v) for k, v in chunk.items()}
        n = len(ch["bin1_id"])
        pos = {"first": 0, "mid": n // 2, "last": n}[fault["pos"]]
        sub = fault["sub"]
        if sub == "oob":
            rec = (min(nbins - 1, 0), nbins)
        elif sub == "oob1":
            rec = (nbins, nbins)
        elif sub == "neg":
            rec = (-1, 0)
        elif sub == "neg2":
            rec = (nbins - 1, -1)
        elif sub == "tril":
            rec = (nbins - 1, 0)
        elif sub == "dup":
            k = min(pos, n - 1)
            rec = (ch["bin1_id"][k], ch["bin2_id"][k])
        elif sub == "dupfar":
            # the copy is NOT next to its original: at the end of the original's row when that row
            # has further records (same row, other columns in between), else at the end of the
            # chunk, else in front of it
            k = min(pos, n - 1)
            rec = (ch["bin1_id"][k], ch["bin2_id"][k])
            e = k + 1
            while e < n and ch["bin1_id"][e] == rec[0]:
                e += 1
            if e > k + 1:
                pos = e
            elif n > k + 1:
                pos = n
            else:
                pos = 0
        for col in ch:
            if col == "bin1_id":
                ch[col].insert(pos, rec[0])
            elif col == "bin2_id":
                ch[col].insert(pos, rec[1])
            else:
                ch[col].insert(pos, 1)
        return ch

    def _chunk_obj(self, ch, dtypes, as_dict):
        idt = _dt(self.cur_op.get("id_dtype", "int64")) if getattr(self, "cur_op", None) else np.int64
        d = {"bin1_id": np.asarray(ch["bin1_id"], dtype=idt),
             "bin2_id": np.asarray(ch["bin2_id"], dtype=idt)}
        for col, dt in dtypes.items():
            d[col] = np.asarray(ch[col], dtype=_dt(dt))
        if as_dict:
            return d
        df = pd.DataFrame(d)
        how = self.cur_op.get("chunk_index", "default") if getattr(self, "cur_op", None) else "default"
        if how == "offset":
            df.index = np.arange(len(df)) + 7_000      # row labels carry no meaning
        elif how == "permuted":
            df.index = np.arange(len(df))[::-1]
        return df

    def _iter_chunks(self, chunks, dtypes, as_dict, f2_at, frame_holder=None):
        wide = self.cur_op.get("wide_chunk") if getattr(self, "cur_op", None) else None

        def gen():
            if frame_holder is not None:
                frame_holder.append(sys._getframe(1))
            for k, ch in enumerate(chunks):
                if f2_at == k:
                    self.fired("F2")
                    raise f2_exception(self.cur_op.get("fault"), "injected: input iterator failed before chunk %d" % k)
                if wide is not None and wide["chunk"] == k:
                    ch = {c: list(v) for c, v in ch.items()}
                    ch["count"][wide["row"]] = wide["value"]
                    yield self._chunk_obj(ch, dict(dtypes, count=wide["dtype"]), as_dict)
                    continue
                yield self._chunk_obj(ch, dtypes, as_dict)
            if f2_at == len(chunks):
                self.fired("F2")
                raise f2_exception(self.cur_op.get("fault"), "injected: input iterator failed at exhaustion")
        return gen()

    def _expected_create(self, op):
        names, lengths, bm = self._layout(op)
        dtypes = op["dtypes"]
        cols = list(dtypes)
        if op.get("unordered"):
            agg = aggregate([pd.DataFrame(c) for c in op["chunks"]], cols)
            if agg is None:
                agg = {"bin1_id": [], "bin2_id": [], **{c: [] for c in cols}}
            px = pixel_frame(agg, {c: _dt(d) for c, d in dtypes.items()})
        else:
            cat = {k: sum((c[k] for c in op["chunks"]), []) for k in ["bin1_id", "bin2_id"] + cols}
            px = pixel_frame(cat, {c: _dt(d) for c, d in dtypes.items()})
            px = px.sort_values(["bin1_id", "bin2_id"], kind="stable").reset_index(drop=True)
            if op["form"] == "array":
                px = px[px["count"] != 0].reset_index(drop=True)
        extra = {k: np.asarray(v, dtype=float) for k, v in (op.get("bin_extra") or {}).items()}
        return Coll(names, lengths, bm, px, op["symmetric"], op.get("metadata"),
                    op.get("assembly"), extra)

    # ----------------------------------------------------------------- faults
    def _arm_open_fault(self, fault):
        self._open_count = 0
        self._task_count = 0
        self._attr_count = 0
        f9 = fault["attr"] if fault is not None and fault.get("kind") == "F9" else None

        def attr_hook(name):
            k = self._attr_count
            self._attr_count += 1
            if k == f9:
                self.fired("F9")
                raise InjectedIOError(28, "injected: no space left on device while writing attribute %r" % name)

        self.sim.hooks["attr"] = attr_hook
        self._flush_count = 0
        f10 = fault["flush"] if fault is not None and fault.get("kind") == "F10" else None

        def flush_hook():
            k = self._flush_count
            self._flush_count += 1
            if k == f10:
                self.fired("F10")
                raise InjectedIOError(5, "injected: input/output error while flushing buffered data")

        self.sim.hooks["flush"] = flush_hook
        target = fault["open"] if fault is not None and fault.get("kind") == "F4" else None
        width = fault.get("width", 1) if target is not None else 0

        def hook(norm, mode):
            k = self._open_count
            self._open_count += 1
            if target is not None and target <= k < target + width:
                self.fired("F4")
                raise InjectedIOError(13, "injected: cannot open %s (%s)" % (norm, mode))

        self.sim.hooks["open"] = hook

    def _arm_snapshots(self, fid):
        self._snaps = []
        if not self.snapshots_on or fid is None:
            self.sim.hooks.pop("close", None)
            return
        target = os.path.realpath(self.fpath(fid))

        def hook(path, is_write):
            if not is_write or path != target:
                return
            if self.sim.flock.holders(path):
                return  # still open through another handle: not a durable boundary
            dst = os.path.join(self.snapdir, "s%d.h5" % len(self._snaps))
            shutil.copyfile(path, dst)
            self._snaps.append(dst)
            self.sim.emit("crash-snapshot", len(self._snaps))

        self.sim.hooks["close"] = hook

    def _call(self, fn, fault):
        """Run fn under the fault plan; returns (exception summary or None, tracer)."""
        tracer = None
        exc = None
        try:
            with warnings.catch_warnings():
                warnings.simplefilter("ignore")
                if fault is not None and fault.get("kind") == "F3":
                    tracer = seams.LineTracer(fault["line"])
                    with tracer:
                        fn()
                elif fault is not None and fault.get("kind") == "count-lines":
                    tracer = seams.LineTracer(None)
                    with tracer:
                        fn()
                else:
                    fn()
        except (kernel.SimDeadlock, kernel.StepLimit) as e:
            exc = (type(e).__name__, str(e)[:300])
        except BaseException as e:
            exc = (type(e).__name__, str(e)[:300])
            if isinstance(e, seams.SimInterrupt):
                self.fired("F3")
            del e
        finally:
            self.sim.hooks.pop("open", None)
            self.sim.hooks.pop("close", None)
            self.sim.hooks.pop("task", None)
            self.sim.hooks.pop("attr", None)
            self.sim.hooks.pop("flush", None)
            try:
                self.sim.drain()
            except Exception:
                pass
            # An operation that failed with an ordinary exception (F1/F2/F4/F6) leaves the
            # process alive: a lock it leaked stays held for whatever the process does next.
            # Only an interrupt/kill (F3), a success or a scheduling verdict resets the lock.
            leak_matters = (exc is not None and fault is not None and
                            fault.get("kind") in ("F0", "F1", "F2", "F4", "F6", "F9", "F10") and
                            exc[0] not in ("SimDeadlock", "StepLimit"))
            if seams.SIMLOCK.owner is not None:
                self.stat("lock-held-after-op")
            if not leak_matters:
                seams.SIMLOCK.reset()
        sys.last_traceback = None
        sys.last_value = None
        gc.collect()
        self.last_tracer = tracer
        self.last_exc = exc
        return exc, tracer

    # ------------------------------------------------------------ op: create
    def op_create(self, op):
        import cooler

        fid, path, mode = op["file"], op["path"], op.get("mode", "a")
        fault = op.get("fault")
        names, lengths, bm = self._layout(op)
        nb = len(bm)
        exp = self._expected_create(op)
        binsdf = cooler_bins(names, bm)
        for k, v in (op.get("bin_extra") or {}).items():
            binsdf[k] = np.asarray(v, dtype=float)
        dtypes = op["dtypes"]
        cols = list(dtypes)
        columns = None if cols == ["count"] else cols
        dtypes_arg = None if dtypes == {"count": "int32"} else {c: _dt(d) for c, d in dtypes.items()}
        chunks = op["chunks"]
        form = op["form"]
        un = op.get("unordered")
        f2_at = None
        if fault and fault["kind"] == "F1":
            chunks = list(chunks)
            chunks[fault["chunk"]] = self._inject_f1(chunks[fault["chunk"]], fault, nb)
            self.fired("F1")
        if fault and fault["kind"] == "F2":
            f2_at = fault["chunk"]
            if form in ("df", "dict", "array"):
                form = "iter"
        holder = [] if un else None
        if form == "df":
            pixels = self._chunk_obj(chunks[0], dtypes, False)
        elif form == "dict":
            pixels = self._chunk_obj(chunks[0], dtypes, True)
        elif form == "array":
            from cooler.create import ArrayLoader
            dense = np.zeros((nb, nb), dtype=_dt(dtypes["count"]))
            ch = chunks[0]
            for i, j, v in zip(ch["bin1_id"], ch["bin2_id"], ch["count"]):
                dense[i, j] = v
                dense[j, i] = v
            pixels = ArrayLoader(binsdf, dense, chunksize=op["arraychunk"])
            # the caller keeps ONE loader object and creates from it again (another destination, or a
            # repeat after a failed attempt): every creation reads the whole matrix
            if op.get("loader_object") == "keep":
                self._loader_obj = (pixels, [list(v) for v in (ch["bin1_id"], ch["bin2_id"], ch["count"])], nb)
            elif op.get("loader_object") == "reuse":
                kept = getattr(self, "_loader_obj", None)
                if kept is None or kept[1] != [list(v) for v in (ch["bin1_id"], ch["bin2_id"], ch["count"])] or kept[2] != nb:
                    raise Skip("no kept loader for this matrix")
                pixels = kept[0]
                self.stat("loader-object-reused")
        else:
            pixels = self._iter_chunks(chunks, dtypes, form == "iterdict", f2_at, holder)
        if fault and fault["kind"] == "F0":
            columns = (columns or ["count"]) + ["no_such_column"]
            self.fired("F0")
        if op.get("bins_object") == "keep":
            self._bins_obj = binsdf
        elif op.get("bins_object") == "shrink":
            kept = getattr(self, "_bins_obj", None)
            if kept is None:
                raise Skip("no kept bin table")
            drop = kept.index[len(binsdf):]
            kept.drop(index=drop, inplace=True)          # the caller's in-place edit
            if len(kept) != len(binsdf) or list(kept["start"]) != list(binsdf["start"]) or \
                    list(kept["chrom"]) != list(binsdf["chrom"]):
                raise Skip("kept bin table is not a prefix")
            for c in list(kept.columns):
                if c not in binsdf.columns:
                    kept.drop(columns=[c], inplace=True)
            binsdf = kept
            self.stat("bins-object-edited-in-place")
        fpath = self.fpath(fid)
        uri = uri_of(path, fpath, op.get("slash", True))
        kw = dict(columns=columns, dtypes=dtypes_arg, metadata=op.get("metadata"),
                  assembly=op.get("assembly"), symmetric_upper=op["symmetric"], mode=mode,
                  h5opts=dict(op["h5opts"]) if op.get("h5opts") else None)
        if kw["h5opts"] and "chunks" in kw["h5opts"]:
            kw["h5opts"]["chunks"] = tuple(kw["h5opts"]["chunks"])
        if un:
            kw.update(ordered=False, mergebuf=un["mergebuf"], max_merge=un["max_merge"],
                      ensure_sorted=un["ensure_sorted"])
            if un.get("delete_temp") is False:
                kw["delete_temp"] = False
            if un.get("dupcheck") is False:
                kw["dupcheck"] = False
                self.stat("unordered-dupcheck-off")
        else:
            kw.update(ordered=True)

        if fid in self.fs.files and path != "/":
            parent = "/" + "/".join(split(path)[:-1])
            if self.fs.canonical(fid, parent, partial=True) is None:
                raise Skip("destination parent lies behind an external link or a dangling link")
        fs_old = self.fs.clone()
        dest_before = self.fs.lookup(fid, path)
        held_before = dest_before is not None and dest_before.kind == "group" and dest_before.coll is not None
        self._arm_open_fault(fault)
        self._arm_snapshots(fid)
        exc, tracer = self._call(lambda: cooler.create_cooler(uri, binsdf, pixels, **kw), fault)
        if holder is not None and exc is None and un.get("delete_temp") is False:
            left = sorted(glob.glob(os.path.join(self.S, "*.multi.cool")))
            if not left:
                self.stat("delete_temp-false-but-no-temp-file")
            for p in left:
                os.remove(p)
        elif holder is not None and exc is None:
            # O-temp (C06): no temporary file outlives a successful run, even while
            # something still references the frames of the call (held here).
            left = sorted(glob.glob(os.path.join(self.S, "*.multi.cool")))
            if left:
                self.violate("C06", "O-temp", ["temporary file(s) outlive a successful unordered "
                                               "create: %d" % len(left)])
                for p in left:
                    try:
                        os.remove(p)
                    except OSError:
                        pass
        if holder is not None:
            del holder[:]
            gc.collect()
            for p in glob.glob(os.path.join(self.S, "*.multi.cool")):
                try:
                    os.remove(p)
                except OSError:
                    pass
        prop = "C06" if un else "C01"
        node = self._fresh(exp, prop)
        fs_ok = fs_old.clone()
        self._place(fs_ok, fid, path, node, mode)
        if op.get("wide_chunk") and (fault is None) and form in ("iter", "iterdict"):
            # a value that does not fit the stored dtype must be refused, never stored clamped
            self.stat("wide-chunk-cases")
            if exc is None:
                self.violate("C01", "O-overflow", ["chunk %d carried %s value %d for an int32 column and the "
                                                   "creation succeeded (stored value cannot be the given one)" % (
                                                       op["wide_chunk"]["chunk"], op["wide_chunk"]["dtype"],
                                                       op["wide_chunk"]["value"])])
                fs_x = fs_old.clone()
                self._place(fs_x, fid, path, self._fresh(INDET, prop), mode)
                self._examine_snapshots(fs_old, fid, path, mode, None, True)
                self._resolve([fs_x], [fid], None, None, True)
                return exc, tracer
            self._examine_snapshots(fs_old, fid, path, mode, None, True)
            self._resolve(self._failed_variants(fs_old, fid, path, mode) + [fs_old], [fid],
                          {"kind": "F1"}, (fid, path), held_before)
            return exc, tracer
        if fault is None or fault["kind"] == "count-lines":
            if exc is not None:
                # creation of valid input must succeed
                self.violate(prop, "create-raised", ["valid creation raised %s: %s" % exc])
                cands = self._failed_variants(fs_old, fid, path, mode) + [fs_old]
            else:
                cands = [fs_ok]
        else:
            k = fault["kind"]
            if exc is None:
                if k in ("F0", "F1", "F2"):
                    self.violate("C13", "not-rejected", ["%s accepted without an error" % (fault,)])
                cands = [fs_ok]
            elif k == "F0":
                # refused up front: nothing may have been touched
                cands = [fs_old]
            elif k in ("F1", "F2"):
                if un:
                    cands = [fs_old]
                else:
                    cands = self._failed_variants(fs_old, fid, path, mode)
                if k == "F1" and exc[0] != "BadInputError":
                    self.stat("f1-other-exception:" + exc[0])
            else:
                cands = self._failed_variants(fs_old, fid, path, mode) + [fs_old, fs_ok]
                if path != "/":
                    fs_abs = fs_old.clone()
                    if mode == "w" or fid not in fs_abs.files:
                        fs_abs.files[fid] = Node()
                    par, name = fs_abs.parent_and_name(fid, path)
                    if par is not None:
                        par.children.pop(name, None)
                    cands.append(fs_abs)
                if mode == "w":
                    fs_tr = fs_old.clone()
                    fs_tr.files[fid] = Node()
                    cands.append(fs_tr)
        self._examine_snapshots(fs_old, fid, path, mode, exp, held_before)
        self._resolve(cands, [fid], fault, (fid, path), held_before)
        return exc, tracer

    # ------------------------------------------------------- F5 examination
    def _examine_snapshots(self, fs_old, fid, path, mode, intended, held_before):
        """Every durable boundary as a restarted process would see it:
        recognised(dest) => dest complete; neighbours read back unchanged."""
        for k, snap in enumerate(self._snaps):
            self.stat("snapshots")
            label = "snapshot#%d: " % k
            try:
                with h5py.File(snap, "r") as f:
                    present = path in f
                    fmt = f[path].attrs.get("format") if present else None
            except Exception as e:
                self.violate("C13", "O-crash", [label + "snapshot unreadable: %s" % e])
                continue
            if fmt == oracles.MAGIC and not held_before:
                self.stat("snapshot-dest-recognised")
                errs = oracles.check_struct(snap, path, label)
                errs += oracles.check_read(uri_of(path, snap), intended, label, deep=False)
                if errs:
                    self.violate("C13", "O-crash", ["destination recognised before it is complete"] + errs)
            elif fmt != oracles.MAGIC and present:
                try:
                    with h5py.File(snap, "r") as f:
                        px = f[path].get("pixels")
                        if px is not None and "bin1_id" in px and px["bin1_id"].shape[0] > 0:
                            self.stat("snapshot-partial-pixels")
                except Exception:
                    pass
            if mode != "w" and fid in fs_old.files:
                # the destination is the *link* at `path` (create unlinks it), so only
                # its parent is resolved through soft links
                parts = split(path)
                dlink = None
                if parts:
                    par, name = fs_old.parent_and_name(fid, path)
                    if par is not None:
                        dlink = (par.id, name)
                done = set()
                for p, n in fs_old.coolers(fid).items():
                    canon = fs_old.canonical(fid, p)
                    if canon is None or canon in done:
                        continue  # through an external link: reads another file
                    done.add(canon)
                    if not parts:
                        if canon == "/":
                            continue
                    elif dlink is not None and self._passes_link(fs_old, fid, canon, dlink):
                        continue  # the destination itself, or something reached through it
                    if not isinstance(n.coll, Coll) or not getattr(n, "verified", False):
                        continue
                    self.stat("snapshot-neighbour-reads")
                    errs = oracles.check_read(uri_of(canon, snap), n.coll, label + canon + ": ", deep=False)
                    if errs:
                        self.violate("C13", "O-crash-neighbour", errs)
        for snap in self._snaps:
            try:
                os.remove(snap)
            except OSError:
                pass
        self._snaps = []

    def _passes_link(self, fs, fid, canon, dlink):
        """Does the hard-link path `canon` traverse the link (parent id, name)?"""
        node = fs.files[fid]
        for name in split(canon):
            if (node.id, name) == dlink:
                return True
            l = node.children.get(name)
            if l is None or l[0] != "h":
                return False
            node = l[1]
        return False

    def _examine_crash_images(self, what):
        """Producers that publish several collections (zoomify levels, scool cells): in every
        crash image, whatever is recognised as a cooler must be structurally complete."""
        from cooler import fileops as _fo

        for k, snap in enumerate(self._snaps):
            self.stat("snapshots")
            try:
                with warnings.catch_warnings():
                    warnings.simplefilter("ignore")
                    listed = _fo.list_coolers(snap)
            except Exception:
                listed = []
            for p in listed:
                errs = oracles.check_struct(snap, p, "%s snapshot#%d %s: " % (what, k, p))
                if errs:
                    self.violate("C13", "O-crash", ["recognised before it is complete"] + errs)
                else:
                    self.stat("crash-image-collections-valid")
        for snap in self._snaps:
            try:
                os.remove(snap)
            except OSError:
                pass
        self._snaps = []

    def _through_external(self, fs, fid, path):
        node = fs.files[fid]
        for name in split(path):
            l = node.children.get(name)
            if l is None:
                return False
            if l[0] == "x":
                return True
            node = l[1] if l[0] == "h" else fs.lookup(fid, l[1])
            if node is None:
                return False
        return False

    # --------------------------------------------------------------- resolve
    def _resolve(self, cands, fids, fault, dest, held_before):
        """Adopt the first candidate model state that the disk agrees with; if
        none does, report the mismatches of the first candidate."""
        best = None
        for fs in cands:
            errs = self._verify(fs, fids, quick=len(cands) > 1)
            if not errs:
                best = (fs, errs)
                break
            if best is None:
                best = (fs, errs)
        fs, errs = best
        self.fs = fs
        if errs and len(cands) > 1:
            errs = self._verify(fs, fids, quick=False)
        for prop, oracle, detail in errs:
            self.violate(prop, oracle, detail)
        if not errs and len(cands) > 1:
            # the adopted state passed the quick comparison: run the full one
            for prop, oracle, detail in self._verify(fs, fids, quick=False):
                self.violate(prop, oracle, detail)
        # C13 O-fail, stated directly on the disk
        if fault is not None and fault.get("kind") in ("F0", "F1", "F2", "F3", "F4", "F6", "F9", "F10") and dest:
            fid, path = dest
            node = fs.lookup(fid, path) if fid in fs.files else None
            complete = node is not None and isinstance(node.coll, Coll)
            if not held_before and not complete:
                errs = oracles.not_recognised(self.fpath(fid), path)
                if errs:
                    self.violate("C13", "O-fail", errs)
        self._mark_verified(fs, fids)

    def _mark_verified(self, fs, fids):
        for fid in fids:
            if fid in fs.files:
                for p, n in fs.walk(fid):
                    if n is not None and isinstance(n.coll, Coll):
                        n.verified = True

    def _damage_prop(self):
        op = self.cur_op
        if op.get("fault") and op["fault"].get("kind") != "count-lines":
            return "C13"
        return {"rename": "C18"}.get(op["op"], "C15")

    def _verify(self, fs, fids, quick=False):
        """Compare the disk with model state `fs` for the given files.
        Returns [(prop, oracle, detail)]."""
        out = []
        for fid in fids:
            fpath = self.fpath(fid)
            if fid not in fs.files:
                if os.path.exists(fpath):
                    out.append(("C15", "O-tree", ["file %s exists but the model says it does not" % fid]))
                continue
            if not os.path.exists(fpath):
                out.append(("C15", "O-tree", ["file %s is missing" % fid]))
                continue
            errs = self._check_tree(fs, fid, fpath)
            if errs:
                out.append((self._damage_prop(), "O-tree", errs))
            dangling = fs.has_dangling(fid)
            if not quick or True:
                errs = self._check_list(fs, fid, fpath, quick)
                for oracle, e in errs:
                    out.append(("C15", oracle, e))
            seen = set()
            for p, n in fs.coolers(fid).items():
                if not isinstance(n.coll, Coll):
                    continue
                if n.id in seen and quick:
                    continue
                seen.add(n.id)
                uri = uri_of(p, fpath)
                fresh = not getattr(n, "verified", False)
                prop = getattr(n, "prop", None) or "C01"
                errs = oracles.check_read(uri, n.coll, p + ": ", deep=self.deep and not quick)
                if errs:
                    out.append((prop if fresh else self._damage_prop(), "O-read", errs))
                elif not quick:
                    self.stat("verified-reads")
                    if len(n.coll.pixels):
                        self.stat("verified-nonempty")
                    if not fresh:
                        self.stat("verified-again-after-later-op")
                if not quick:
                    serrs = oracles.check_struct(fpath, p, p + ": ")
                    if serrs:
                        out.append(("C02", "O-struct", serrs))
                    else:
                        self.stat("struct-checked")
                        self.stat("struct-checked:" + (prop or "?"))
            if not quick:
                errs = oracles.check_unrelated(fs, fid, fpath)
                if errs:
                    out.append((self._damage_prop(), "O-unrelated", errs))
        return out

    def _check_list(self, fs, fid, fpath, quick):
        """O-list split in three oracles so that distinct defects have
        distinct signatures."""
        from cooler import fileops

        out = []
        want = natural_sorted(list(fs.coolers(fid).keys()))
        with warnings.catch_warnings():
            warnings.simplefilter("ignore")
            try:
                got = fileops.list_coolers(fpath)
                if got != want:
                    kind = "O-list"
                    if fs.has_external(fid):
                        kind = "O-list-external"
                    out.append((kind, ["list_coolers %r != model %r" % (got, want)]))
            except Exception as e:
                kind = "O-list-dangling" if fs.has_dangling(fid) else "O-list"
                out.append((kind, ["list_coolers raised %s: %s" % (type(e).__name__, str(e)[:120])]))
            if quick:
                return out
            if self.cur_op.get("cli") and not out:
                # `cooler ls` prints exactly the listed URIs
                try:
                    from click.testing import CliRunner
                    from cooler.cli import cli as _cli
                    r = CliRunner().invoke(_cli, ["ls", fpath], catch_exceptions=False)
                    lines = [ln for ln in (r.output or "").splitlines() if ln.strip()]
                    if r.exit_code != 0 or lines != [fpath + "::" + p for p in want]:
                        out.append(("O-list-cli", ["`cooler ls` printed %r, model %r" % (lines, want)]))
                    else:
                        self.stat("cli-ls-verified")
                except Exception as e:
                    out.append(("O-list-cli", ["`cooler ls` raised %s" % type(e).__name__]))
            probes = []
            for p, n in fs.walk(fid):
                if n is None:
                    probes.append((p, False, "dangling"))
                else:
                    probes.append((p, n.kind == "group" and n.coll is not None, "present"))
            probes.append(("/__missing__", False, "missing"))
            probes.append(("/__missing__/deeper", False, "missing"))
            for p, n in fs.walk(fid):
                if n is not None and n.kind == "group" and isinstance(n.coll, Coll):
                    probes.append((p.rstrip("/") + "/bins/start", False, "present"))
                    probes.append((p.rstrip("/") + "/pixels", False, "present"))
                    break
            for p, rec, kind in probes:
                for spelled in sorted({p, p.lstrip("/") or "/"}):
                    uri = fpath + "::" + spelled
                    try:
                        got = fileops.is_cooler(uri)
                        if bool(got) != rec:
                            out.append(("O-is_cooler", ["is_cooler(::%s) = %r, model says %r" % (spelled, got, rec)]))
                    except Exception as e:
                        out.append(("O-is_cooler-" + kind,
                                    ["is_cooler(::%s) raised %s (must be %r, not an error)" % (
                                        spelled, type(e).__name__, rec)]))
            try:
                r = fileops.is_cooler(os.path.join(self.S, "no-such-file.cool") + "::/x")
                if r:
                    out.append(("O-is_cooler", ["is_cooler(missing file) is True"]))
            except Exception as e:
                out.append(("O-is_cooler-nofile", ["is_cooler(missing file) raised %s" % type(e).__name__]))
        return out

    def _check_tree(self, fs, fid, fpath):
        """O-tree: the link structure on disk is the model's (names, link
        kinds, object identity), nothing extra and nothing missing."""
        errs = []
        addr = {}
        try:
            with h5py.File(fpath, "r") as f:
                def rec(node, grp, prefix, depth):
                    if depth > 8:
                        return
                    a = h5py.h5o.get_info(grp.id).addr
                    if node.id in addr and addr[node.id] != a:
                        errs.append("%s: object identity differs from model (hard link expected)" % prefix)
                    addr.setdefault(node.id, a)
                    real = set(grp.keys())
                    model = set(node.children)
                    allowed = set(RESERVED) if (node.coll is not None or node.dirty) else set()
                    if node.tag == "scool":
                        allowed |= {"chroms", "bins"}
                    for name in sorted(real - model):
                        if name not in allowed:
                            errs.append("unexpected object %s%s" % (prefix, name))
                    for name in sorted(model - real):
                        errs.append("missing object %s%s" % (prefix, name))
                    if isinstance(node.coll, Coll):
                        for name in RESERVED:
                            if name not in real:
                                errs.append("collection %s lacks %s" % (prefix, name))
                    for name in sorted(model & real):
                        l = node.children[name]
                        rl = grp.get(name, getlink=True)
                        if l[0] == "h":
                            if not isinstance(rl, h5py.HardLink):
                                errs.append("%s%s: expected hard link, found %s" % (prefix, name, type(rl).__name__))
                                continue
                            child = grp[name]
                            if l[1].kind == "group":
                                if not isinstance(child, h5py.Group):
                                    errs.append("%s%s: expected group" % (prefix, name))
                                else:
                                    rec(l[1], child, prefix + name + "/", depth + 1)
                            else:
                                if not isinstance(child, h5py.Dataset):
                                    errs.append("%s%s: expected dataset" % (prefix, name))
                        elif l[0] == "s":
                            if not isinstance(rl, h5py.SoftLink) or rl.path != l[1]:
                                errs.append("%s%s: expected soft link to %s, found %r" % (prefix, name, l[1], rl))
                        else:
                            if not isinstance(rl, h5py.ExternalLink) or rl.path != l[2]:
                                errs.append("%s%s: expected external link" % (prefix, name))
                            elif rl.filename != self.fpath(l[1]):
                                errs.append("%s%s: external link stores file name %r, the source was given as %r" % (
                                    prefix, name, rl.filename, self.fpath(l[1])))
                rec(fs.files[fid], f, "/", 0)
                inv = {}
                for nid, a in addr.items():
                    if a in inv:
                        errs.append("two distinct model objects share one HDF5 object (copy expected)")
                    inv[a] = nid
                root = fs.files[fid]
                fmt = f.attrs.get("format")
                if root.tag == "mcool" and fmt != "HDF5::MCOOL":
                    errs.append("root format tag %r, expected HDF5::MCOOL" % (fmt,))
        except Exception as e:
            errs.append("tree check raised %s: %s" % (type(e).__name__, str(e)[:160]))
        return errs

    # ------------------------------------------------------------ file-level
    def op_fileop(self, op):
        from cooler import fileops

        kind = op["op"]
        s, d = op["src"], op["dst"]
        sf, sp, df, dp = s["file"], s["path"], d["file"], d["path"]
        overwrite = bool(op.get("overwrite"))
        soft = bool(op.get("soft"))
        fs = self.fs
        if sf not in fs.files:
            raise Skip("source file missing")
        src_node = fs.lookup(sf, sp)
        if src_node is None:
            raise Skip("source missing")
        suri = uri_of(sp, self.fpath(sf), s.get("slash", True))
        duri = uri_of(dp, self.fpath(df), d.get("slash", True))
        same = sf == df
        if kind == "mv" and not same:
            raise Skip("mv is documented for one file")
        src_external = fs.canonical(sf, sp) is None
        if src_external and overwrite:
            raise Skip("overwrite could truncate the file the external source lives in")
        if src_external and same and kind in ("mv", "ln"):
            r_ = fs.lookup2(sf, sp)
            if r_ is not None and r_[1] == df:
                # external links leading back into this very file: libhdf5 treats the object as
                # local and allows the hard link; not generated
                raise Skip("source reaches this file again through external links")
        if src_external and kind == "cp" and not same:
            # bound: H5Ocopy through an external link that (possibly via a chain)
            # points into the destination file segfaults in libhdf5 2.0.0
            r = fs.lookup2(sf, sp)
            if r is None or r[1] == df or self._ext_hops(fs, sf, sp) > 1:
                raise Skip("copy through an external link into its own target file")
        if df in fs.files and dp != "/":
            parent = "/" + "/".join(split(dp)[:-1])
            if fs.canonical(df, parent, partial=True) is None:
                raise Skip("destination parent lies behind an external link or a dangling link")
            if kind == "cp" and fs.canonical(df, parent, partial=True) != (parent if parent != "" else "/") \
                    and parent not in ("", "/"):
                # bound: H5Ocopy cannot address a destination through a soft link ("address undefined")
                raise Skip("copy destination lies behind a soft link")
            if fs.lookup(df, parent) is None and fs.canonical(df, parent, partial=True) != parent:
                # bound: libhdf5 cannot create missing intermediate groups beyond a
                # soft link ("address undefined")
                raise Skip("missing intermediate groups beyond a soft link")
        fs_old = fs.clone()
        new = fs.clone()
        expect_refusal = None
        src_new = new.lookup(sf, sp)
        if same:
            # overwrite=True on the same file would open it in mode w while it is open r+
            if overwrite:
                raise Skip("overwrite within one file not generated")
            if dp == "/":
                raise Skip("root destination within the same file")
            exists = new.lookup(df, dp, follow_last=False) is not None
            par, name = new.parent_and_name(df, dp, create=True)
            if par is None or par.kind != "group":
                raise Skip("bad destination")
            if new.in_subtree(sf, src_new, par):
                raise Skip("destination lies inside the source (link cycle)")
            if exists:
                expect_refusal = "destination exists"
            elif src_external and (kind == "mv" or (kind == "ln" and not soft)):
                expect_refusal = "hard link to an object of another file"
            elif kind == "cp":
                if sp == "/" or dp.startswith(sp.rstrip("/") + "/"):
                    raise Skip("copy into own subtree not generated")
                cp = src_new.deepcopy()
                self._retag(cp, "C15")
                par.children[name] = ("h", cp)
            elif kind == "mv":
                if sp == "/" or dp.startswith(sp.rstrip("/") + "/"):
                    raise Skip("move into own subtree")
                spar, sname = new.parent_and_name(sf, sp)
                link = spar.children[sname]
                if link[0] != "h":
                    raise Skip("moving a link is not generated")
                par.children[name] = ("h", src_new)
                del spar.children[sname]
                self._retag(src_new, "C15")
            elif kind == "ln" and not soft:
                if sp == "/" or dp.startswith(sp.rstrip("/") + "/"):
                    raise Skip("link into own subtree")
                par.children[name] = ("h", src_new)
            else:
                if dp.startswith(sp.rstrip("/") + "/") or sp == "/":
                    raise Skip("soft link cycle")
                par.children[name] = ("s", sp)
        else:
            if kind == "ln" and not soft:
                expect_refusal = "hard link across files"
            else:
                if df not in new.files or overwrite:
                    new.files[df] = Node()
                droot = new.files[df]
                if kind == "ln":
                    if dp == "/":
                        raise Skip("external link at root")
                    if new.lookup(df, dp, follow_last=False) is not None:
                        expect_refusal = "destination exists"
                    else:
                        par, name = new.parent_and_name(df, dp, create=True)
                        if par is None or par.kind != "group":
                            raise Skip("bad destination")
                        par.children[name] = ("x", sf, sp)
                elif dp == "/":
                    if src_node.kind != "group":
                        raise Skip("dataset to root")
                    if droot.children or droot.coll is not None or droot.dirty:
                        raise Skip("copy into a populated root not generated")
                    cp = src_new.deepcopy()
                    self._retag(cp, "C15")
                    # children of the source are copied one H5Ocopy call each: object identity
                    # shared between two top-level children is not preserved
                    # (resolved: H5Ocopy follows the named link)
                    for cname, l in list(src_new.children.items()):
                        if l[0] == "h":
                            c1 = l[1].deepcopy()
                            self._retag(c1, "C15")
                            droot.children[cname] = ("h", c1)
                        else:
                            tgt = new.lookup(sf, sp.rstrip("/") + "/" + cname)
                            if tgt is None:
                                raise Skip("dangling link inside source")
                            t2 = tgt.deepcopy()
                            self._retag(t2, "C15")
                            droot.children[cname] = ("h", t2)
                    droot.coll = cp.coll
                    droot.dirty = cp.dirty      # left-overs of a failed creation are copied along
                    droot.attrs.update(cp.attrs)
                    droot.prop = "C15"
                    droot.verified = False
                    droot.tag = cp.tag
                else:
                    if new.lookup(df, dp, follow_last=False) is not None:
                        expect_refusal = "destination exists"
                    else:
                        par, name = new.parent_and_name(df, dp, create=True)
                        if par is None or par.kind != "group":
                            raise Skip("bad destination")
                        cp = src_new.deepcopy()
                        self._retag(cp, "C15")
                        par.children[name] = ("h", cp)
        for f_ in new.files:
            if new.has_cycle(f_):
                raise Skip("operation would create a link cycle")
        if op.get("cli"):
            from click.testing import CliRunner
            from cooler.cli import cli as _cli

            args = [kind] + (["--overwrite"] if overwrite else []) + (["--soft"] if kind == "ln" and soft else []) \
                + [suri, duri]

            def fn():
                r = CliRunner().invoke(_cli, args, catch_exceptions=False)
                if r.exit_code != 0:
                    raise RuntimeError("cli exit %s: %s" % (r.exit_code, (r.output or "")[-200:]))
            self.stat("fileop-via-cli")
        else:
            fn = {"cp": lambda: fileops.cp(suri, duri, overwrite=overwrite),
                  "mv": lambda: fileops.mv(suri, duri, overwrite=overwrite),
                  "ln": lambda: fileops.ln(suri, duri, soft=soft, overwrite=overwrite)}[kind]
        self._arm_open_fault(None)
        self._arm_snapshots(None)
        exc, _ = self._call(fn, None)
        fids = sorted({sf, df})
        if expect_refusal:
            if exc is None:
                self.violate("C15", "not-refused", ["%s should be refused (%s)" % (kind, expect_refusal)])
            # refused operations leave the model unchanged, except that a
            # missing destination file has been created empty (mode w)
            keep = fs_old
            if df not in keep.files and os.path.exists(self.fpath(df)):
                keep = fs_old.clone()
                keep.files[df] = Node()
            elif overwrite and not same and df in keep.files:
                keep = fs_old.clone()
                keep.files[df] = Node()
            # a refused operation may have created the (empty) parent groups of
            # its destination before failing: tolerated, the property is silent
            keep2 = keep.clone()
            if df in keep2.files and dp != "/":
                keep2.parent_and_name(df, dp, create=True)
            self._resolve([keep, keep2], fids, None, None, False)
        else:
            if exc is not None:
                self.violate("C15", "op-raised", ["%s raised %s: %s" % ((kind,) + exc)])
                self._resolve([fs_old, new], fids, None, None, False)
            else:
                self._resolve([new], fids, None, None, False)
        return exc, None

    def _ext_hops(self, fs, fid, path, depth=0):
        """Number of external links crossed while resolving path."""
        if depth > 8 or fid not in fs.files:
            return 0
        node = fs.files[fid]
        parts = split(path)
        for k, name in enumerate(parts):
            l = node.children.get(name) if node.kind == "group" else None
            if l is None:
                return 0
            if l[0] == "h":
                node = l[1]
                continue
            rest = "/".join(parts[k + 1:])
            if l[0] == "s":
                return self._ext_hops(fs, fid, l[1].rstrip("/") + "/" + rest, depth + 1)
            return 1 + self._ext_hops(fs, l[1], l[2].rstrip("/") + "/" + rest, depth + 1)
        return 0

    def _retag(self, node, prop, seen=None):
        seen = seen if seen is not None else set()
        if node.id in seen:
            return
        seen.add(node.id)
        if node.coll is not None:
            node.prop = prop
            node.verified = False
        for l in node.children.values():
            if l[0] == "h":
                self._retag(l[1], prop, seen)

    # ------------------------------------------------------------------ plant
    def op_plant(self, op):
        fid, path = op["file"], op["path"]
        if fid not in self.fs.files:
            raise Skip("no file")
        fpath = self.fpath(fid)
        new = self.fs.clone()
        if op["what"] == "attr":
            node = new.lookup(fid, path)
            if node is None:
                raise Skip("no node")
            node.attrs[op["name"]] = op["value"]
            with h5py.File(fpath, "r+") as f:
                f[path].attrs[op["name"]] = op["value"]
        else:
            if new.lookup(fid, path, follow_last=False) is not None:
                raise Skip("exists")
            par, name = new.parent_and_name(fid, path, create=True)
            if par is None or par.kind != "group" or par.coll is not None and name in RESERVED:
                raise Skip("bad place")
            n = Node("dataset" if op["what"] == "dataset" else "group")
            n.data = list(op.get("value") or []) if op["what"] == "dataset" else None
            par.children[name] = ("h", n)
            with h5py.File(fpath, "r+") as f:
                if op["what"] == "dataset":
                    f.create_dataset(path, data=np.asarray(n.data, dtype=np.int64))
                else:
                    f.create_group(path)
        self.fs = new
        return None, None

    # ------------------------------------------------------------------- run
    def run(self, ops, stop_on_violation=True):
        self.ops = list(ops)
        for idx, op in enumerate(ops):
            self.run_one(idx, op)
            if self.violations and stop_on_violation:
                break
        return self.violations

    def run_one(self, idx, op):
        if True:
            self.opidx = idx
            self.cur_op = op
            kind = op["op"]
            flight = os.environ.get("COOLSIM_FLIGHT")
            if flight:
                import json
                with open(flight, "w") as f:
                    json.dump({"ops": self.ops[: idx + 1]}, f)
            self.sim.emit("op-begin", (idx, kind))
            try:
                if kind == "create":
                    exc, _ = self.op_create(op)
                elif kind in ("cp", "mv", "ln"):
                    exc, _ = self.op_fileop(op)
                elif kind == "plant":
                    exc, _ = self.op_plant(op)
                else:
                    handler = getattr(self, "op_" + kind)
                    exc, _ = handler(op)
                self.sim.emit("op-end", (idx, kind, exc[0] if exc else None))
                self.stat("op:" + kind)
            except Skip as e:
                self.sim.emit("op-skip", (idx, kind, str(e)))
                self.stat("skipped")
            self.trace.append(self._state_signature(op))

    def run_online(self, rng, gen_next, nops, cfg, stop_on_violation=True):
        """Generate-and-execute: the generator sees the model state left by
        all earlier operations.  The executed records are kept in self.ops."""
        self.ops = []
        for idx in range(nops):
            op = gen_next(rng, self.fs, idx, cfg)
            if op is None:
                break
            self.ops.append(op)
            self.run_one(idx, op)
            if self.violations and stop_on_violation:
                break
        return self.violations

    def _state_signature(self, op):
        sig = []
        for fid in sorted(self.fs.files):
            for p, n in sorted(self.fs.coolers(fid).items()):
                sig.append((fid, p, n.coll.signature() if isinstance(n.coll, Coll) else "indet"))
        f = op.get("fault")
        return hashlib.sha1(repr((op["op"], f.get("kind") if f else None, sig)).encode()).hexdigest()[:12]


# ===========================================================================
# Producers that consume earlier collections: merge, coarsen, zoomify
# ===========================================================================
def _compatible(colls):
    a = colls[0]
    for b in colls[1:]:
        if a.chromnames != b.chromnames or a.lengths != b.lengths:
            return False
        if len(a.bins) != len(b.bins) or not (a.bins.values == b.bins.values).all():
            return False
    return True


def _wrap_iter_fault(cls, fault, run):
    """F2 for merge/coarsen producers: the chunk iterator raises before
    yielding chunk k.  Returns an undo function."""
    orig = cls.__iter__
    k = fault["chunk"] if fault is not None and fault.get("kind") == "F2" else None

    def faulty(self):
        n = 0
        for ch in orig(self):
            if n == k:
                run.fired("F2")
                raise f2_exception(fault, "injected: input failed before chunk %d" % k)
            n += 1
            run._iter_chunks_seen = n
            yield ch
        if k is not None and k >= n:
            run.fired("F2")
            raise InjectedIOError(5, "injected: input failed at exhaustion")

    cls.__iter__ = faulty
    return lambda: setattr(cls, "__iter__", orig)


def _op_merge(self, op):
    import cooler
    from cooler._reduce import CoolerMerger

    fid, path, mode = op["file"], op["path"], op.get("mode", "a")
    fault = op.get("fault")
    ins = []
    for i in op["inputs"]:
        if i["file"] not in self.fs.files:
            raise Skip("input file missing")
        n = self.fs.lookup(i["file"], i["path"])
        if n is None or not isinstance(n.coll, Coll):
            raise Skip("input missing")
        ins.append(n.coll)
    if any(i["file"] == fid for i in op["inputs"]) and not op.get("allow_same_file"):
        raise Skip("merge into a file holding an input is refused by libhdf5 (bound)")
    if fid in self.fs.files and path != "/":
        parent = "/" + "/".join(split(path)[:-1])
        if self.fs.canonical(fid, parent, partial=True) is None:
            raise Skip("destination parent behind an external link")
    columns = op.get("columns") or ["count"]
    agg = op.get("agg") or {}
    refuse = None
    if len({c.symmetric for c in ins}) > 1:
        refuse = "storage modes differ"
    elif not _compatible(ins):
        refuse = "bin tables differ"
    elif any(col not in c.pixels.columns for c in ins for col in columns):
        refuse = "column missing"
    exp = None
    overflow = False
    if refuse is None:
        dts = {col: np.result_type(*[c.pixels[col].dtype for c in ins]) for col in columns}
        out = aggregate([c.pixels for c in ins], columns, agg)
        if out is None:
            out = {"bin1_id": [], "bin2_id": [], **{c: [] for c in columns}}
        overflow = not all(fits(out[c], dts[c]) for c in columns)
        if not overflow:
            exp = Coll(ins[0].chromnames, ins[0].lengths, ins[0].bins, pixel_frame(out, dts),
                       ins[0].symmetric, None, ins[0].assembly)
            exp.approx_cols = set().union(*[set(getattr(c, "approx_cols", ())) for c in ins]) & set(columns)
            if any(getattr(c, "dtype_alternatives", None) for c in ins):
                # an input whose own dtype is one of several acceptable ones: so is the common type
                import itertools as _it
                alts = {}
                for col in columns:
                    opts = [sorted(getattr(c, "dtype_alternatives", {}).get(col, set()) | {str(c.pixels[col].dtype)})
                            for c in ins]
                    alts[col] = {str(np.result_type(*combo)) for combo in _it.product(*opts)}
                exp.dtype_alternatives = alts
    uris = [uri_of(i["path"], self.fpath(i["file"])) for i in op["inputs"]]
    uri = uri_of(path, self.fpath(fid), op.get("slash", True))
    kw = dict(mergebuf=op["mergebuf"], mode=mode)
    if op.get("columns"):
        kw["columns"] = list(op["columns"])
    if agg:
        kw["agg"] = dict(agg)
    self._iter_chunks_seen = 0
    undo = _wrap_iter_fault(CoolerMerger, fault, self)
    fs_old = self.fs.clone()
    dest_before = self.fs.lookup(fid, path) if fid in self.fs.files else None
    held_before = dest_before is not None and dest_before.kind == "group" and dest_before.coll is not None
    self._arm_open_fault(fault)
    self._arm_snapshots(fid)
    if op.get("cli"):
        from click.testing import CliRunner
        from cooler.cli import cli as _cli

        args = ["merge", "-c", str(op["mergebuf"])] + (["--append"] if mode == "a" else [])
        for col in (op.get("columns") or []):
            args += ["--field", col + (":agg=" + agg[col] if col in agg else "")]
        args += [uri] + uris

        def call():
            r = CliRunner().invoke(_cli, args, catch_exceptions=False)
            if r.exit_code != 0:
                raise RuntimeError("cli exit %s: %s" % (r.exit_code, (r.output or "")[-200:]))
        self.stat("merge-via-cli")
    else:
        def call():
            cooler.merge_coolers(uri, uris, **kw)
    try:
        exc, tracer = self._call(call, fault)
    finally:
        if undo:
            undo()
    self._finish_producer(op, "C07", exc, exp, refuse, overflow, fs_old, fid, path, mode, held_before,
                          early_refusal=True)
    if exc is None and exp is not None and "count" in columns:
        # recorded total = sum of the input totals
        want = sum(c.total("count") for c in ins) if agg.get("count", "sum") == "sum" else None
        if want is not None:
            try:
                got = cooler.Cooler(uri).info.get("sum")
                if got != want and not (isinstance(want, float) and abs(got - want) <= 1e-9 * abs(want)):
                    self.violate("C07", "O-sum", ["merged total %r != sum of input totals %r" % (got, want)])
            except Exception as e:
                self.violate("C07", "O-sum", ["cannot read merged total: %s" % e])
    return exc, tracer


def _finish_producer(self, op, prop, exc, exp, refuse, overflow, fs_old, fid, path, mode, held_before,
                     early_refusal):
    """Common outcome handling for merge/coarsen: success, expected refusal,
    overflow (must raise), injected fault."""
    fault = op.get("fault")
    faulted = fault is not None and fault.get("kind") != "count-lines"
    failed = self._failed_variants(fs_old, fid, path, mode)
    intended = exp
    if refuse is not None:
        if exc is None:
            self.violate(prop, "not-refused", ["%s must be refused (%s) but succeeded" % (op["op"], refuse)])
            self._examine_snapshots(fs_old, fid, path, mode, None, True)
            fs_new = fs_old.clone()
            self._place(fs_new, fid, path, self._fresh(INDET, prop), mode)
            self._resolve([fs_new], [fid], None, None, True)
            return
        self.stat("refused:" + refuse)
        self._examine_snapshots(fs_old, fid, path, mode, None, True)
        self._resolve([fs_old] + failed if not early_refusal else [fs_old] + failed, [fid], None, None, held_before)
        return
    if overflow:
        self.stat("overflow-case")
        if exc is None:
            self.violate(prop, "O-overflow", ["an aggregate does not fit the output dtype but no error was "
                                              "raised (stored value silently differs from the exact aggregate)"])
            fs_new = fs_old.clone()
            self._place(fs_new, fid, path, self._fresh(INDET, prop), mode)
            self._examine_snapshots(fs_old, fid, path, mode, None, True)
            self._resolve([fs_new], [fid], None, None, True)
            return
        self._examine_snapshots(fs_old, fid, path, mode, None, True)
        self._resolve(failed + [fs_old], [fid], {"kind": "F6"}, (fid, path), held_before)
        return
    node = self._fresh(exp, prop)
    fs_ok = fs_old.clone()
    self._place(fs_ok, fid, path, node, mode)
    if not faulted:
        if exc is not None:
            self.violate(prop, "op-raised", ["%s raised %s: %s" % ((op["op"],) + exc)])
            cands = failed + [fs_old]
        else:
            cands = [fs_ok]
        self._examine_snapshots(fs_old, fid, path, mode, intended, held_before)
        self._resolve(cands, [fid], None, (fid, path), held_before)
        return
    if exc is None:
        if fault["kind"] == "F2":
            self.violate("C13", "not-rejected", ["%s: injected input failure did not surface" % op["op"]])
        cands = [fs_ok]
    elif fault["kind"] == "F2":
        cands = failed
    else:
        cands = failed + [fs_old, fs_ok]
        if path != "/":
            fs_abs = fs_old.clone()
            if mode == "w" or fid not in fs_abs.files:
                fs_abs.files[fid] = Node()
            par, name = fs_abs.parent_and_name(fid, path)
            if par is not None:
                par.children.pop(name, None)
            cands.append(fs_abs)
        if mode == "w":
            fs_tr = fs_old.clone()
            fs_tr.files[fid] = Node()
            cands.append(fs_tr)
    self._examine_snapshots(fs_old, fid, path, mode, intended, held_before)
    self._resolve(cands, [fid], fault, (fid, path), held_before)


def _op_coarsen(self, op):
    import cooler
    from cooler._reduce import CoolerCoarsener

    s = op["src"]
    fid, path, mode = op["file"], op["path"], op.get("mode", "a")
    fault = op.get("fault")
    if s["file"] not in self.fs.files:
        raise Skip("source file missing")
    sn = self.fs.lookup(s["file"], s["path"])
    if sn is None or not isinstance(sn.coll, Coll):
        raise Skip("source missing")
    same = s["file"] == fid
    if same and mode == "w":
        raise Skip("mode w would truncate the source")
    if same:
        # the destination must not be the source or contain it
        dn = self.fs.lookup(fid, path)
        if dn is not None and self.fs.in_subtree(fid, dn, sn):
            raise Skip("destination holds the source")
        if path == "/" and self.fs.files[fid] is sn:
            raise Skip("destination is the source")
    if fid in self.fs.files and path != "/":
        parent = "/" + "/".join(split(path)[:-1])
        if self.fs.canonical(fid, parent, partial=True) is None:
            raise Skip("destination parent behind an external link")
    src = sn.coll
    k = int(op["factor"])
    columns = op.get("columns") or ["count"]
    agg = op.get("agg") or {}
    refuse = None
    if any(col not in src.pixels.columns for col in columns):
        refuse = "column missing"
    exp, ok = (None, True)
    if refuse is None:
        exp, ok = coarsen_model(src, k, columns, agg)
    suri = uri_of(s["path"], self.fpath(s["file"]), s.get("slash", True))
    uri = uri_of(path, self.fpath(fid), op.get("slash", True))
    nproc = int(op.get("nproc", 1))
    self._iter_chunks_seen = 0
    undo = _wrap_iter_fault(CoolerCoarsener, fault, self)
    undo_agg = None
    if fault and fault["kind"] == "F6" and fault.get("where") == "aggregate":
        # the failure happens INSIDE the reader (serial or pooled path alike)
        orig_agg = CoolerCoarsener._aggregate
        cnt = [0]
        tgt = fault["task"]

        def failing(self_, span):
            n_ = cnt[0]
            cnt[0] += 1
            if n_ == tgt:
                self.fired("F6")
                raise MemoryError("injected: out of memory while aggregating span %r" % (span,))
            return orig_agg(self_, span)

        CoolerCoarsener._aggregate = failing
        undo_agg = lambda: setattr(CoolerCoarsener, "_aggregate", orig_agg)
    f6_target = fault["task"] if fault and fault["kind"] == "F6" and fault.get("where") != "aggregate" else None

    def task_hook(jobno, i):
        n = self._task_count
        self._task_count += 1
        if n == f6_target:
            self.fired("F6")
            raise (MemoryError("injected: worker out of memory") if fault.get("exc") == "MemoryError"
                   else InjectedIOError(5, "injected: read error in worker"))
    task_hook_on = True
    fs_old = self.fs.clone()
    dest_before = self.fs.lookup(fid, path) if fid in self.fs.files else None
    held_before = dest_before is not None and dest_before.kind == "group" and dest_before.coll is not None
    self._arm_open_fault(fault)
    self._arm_snapshots(fid)
    self.sim.hooks["task"] = task_hook
    if op.get("cli"):
        from click.testing import CliRunner
        from cooler.cli import cli

        args = ["coarsen", "-k", str(k), "-c", str(op["chunksize"]), "-p", str(nproc), "-o", uri]
        if mode == "a":
            args.append("--append")
        for col in (op.get("columns") or []):
            spec = col
            if col in agg:
                spec += ":agg=" + agg[col]
            args += ["--field", spec]
        args.append(suri)

        def call():
            r = CliRunner().invoke(cli, args, catch_exceptions=False)
            if r.exit_code != 0:
                raise RuntimeError("cli exit %s: %s" % (r.exit_code, (r.output or "")[-200:]))
    else:
        kw = dict(chunksize=op["chunksize"], nproc=nproc)
        if op.get("columns"):
            kw["columns"] = list(op["columns"])
        if agg:
            kw["agg"] = {c: (getattr(np, a[3:]) if isinstance(a, str) and a.startswith("np.") else a)
                         for c, a in agg.items()}
        if mode != "a" or op.get("explicit_mode"):
            kw["mode"] = mode
        if op.get("lock_none"):
            kw["lock"] = None   # explicitly no writer lock (as legacy_zoomify's Python API forwards)

        def call():
            cooler.coarsen_cooler(suri, uri, k, **kw)
    nconf0 = len(self.sim.flock_conflicts)
    try:
        exc, tracer = self._call(call, fault)
    finally:
        if undo:
            undo()
        if undo_agg:
            undo_agg()
        self.sim.hooks.pop("task", None)
    # O-sched: no reader/writer overlap, no deadlock, for every schedule
    if len(self.sim.flock_conflicts) > nconf0:
        self.violate(op.get("prop", "C08"), "O-sched-flock",
                     ["simulated HDF5 file-lock conflict: %r" % (self.sim.flock_conflicts[nconf0],)])
    if exc is not None and exc[0] in ("SimDeadlock", "StepLimit"):
        if op.get("reissue"):
            self.violate("C13", "O-reissue-deadlock", ["re-issuing the operation after its injected failure "
                                                        "deadlocks (a lock was leaked): %s" % exc[1][:200]])
        else:
            self.violate(op.get("prop", "C08"), "O-sched-deadlock", ["%s: %s" % exc])
        seams.SIMLOCK.reset()
    self.sim.deadlock = None
    if exc is None and exp is not None and nproc > 1:
        self.stat("pooled-coarsen-ok")
    self._finish_producer(op, op.get("prop", "C08"), exc, exp if ok else None, refuse, not ok, fs_old, fid, path,
                          mode, held_before, early_refusal=True)
    return exc, tracer


def _op_zoomify(self, op):
    """zoomify_cooler / `cooler zoomify` into a fresh .mcool file."""
    import cooler

    fid = op["file"]
    if op.get("expect_refusal_same_file"):
        # the output file is the file that holds a base: libhdf5 refuses to truncate an open file;
        # the call fails and the input must survive untouched
        if not any(b["file"] == fid for b in op["bases"]) or fid not in self.fs.files:
            raise Skip("not the same-file case")
        uris_ = [uri_of(b["path"], self.fpath(b["file"])) for b in op["bases"]]
        fs_old = self.fs.clone()
        self._arm_open_fault(None)
        self._arm_snapshots(None)
        exc, tracer = self._call(lambda: cooler.zoomify_cooler(uris_, self.fpath(fid), [int(r) for r in op["resolutions"]],
                                                               chunksize=op["chunksize"], nproc=1), None)
        self.stat("zoomify-into-its-own-input")
        if exc is None:
            self.stat("zoomify-into-its-own-input-accepted")
            fs_new = fs_old.clone()
            fs_new.files.pop(fid, None)
            if os.path.exists(self.fpath(fid)):
                os.remove(self.fpath(fid))
            self.fs = fs_new
            return exc, tracer
        errs = self._verify(fs_old, [fid])
        if errs:
            self.violate("C09", "O-refused-input-intact", ["zoomify into the file that holds its base failed (%s) and the "
                                                           "input did not survive: %s" % (exc[0], errs[0][2][:2])])
            fs_new = fs_old.clone()
            fs_new.files.pop(fid, None)
            if os.path.exists(self.fpath(fid)):
                os.remove(self.fpath(fid))
            self.fs = fs_new
        return exc, tracer
    bases = []
    for b in op["bases"]:
        if b["file"] not in self.fs.files or b["file"] == fid:
            raise Skip("base missing or inside the output file")
        n = self.fs.lookup(b["file"], b["path"])
        if n is None or not isinstance(n.coll, Coll):
            raise Skip("base missing")
        bases.append(n.coll)
    resolutions = [int(r) for r in op["resolutions"]]
    columns = op.get("columns") or ["count"]
    base_res = []
    for c in bases:
        b, _amb = c.binsize()
        base_res.append(1 if b is None else int(b))
    refuse = None
    if len(set(base_res)) != len(base_res):
        raise Skip("two bases of one resolution")
    for r in resolutions:
        if not any(r % b == 0 for b in base_res):
            refuse = "resolution %d not derivable" % r
    if any(col not in c.pixels.columns for c in bases for col in columns):
        raise Skip("column missing in a base")
    # model: every base copied, every other resolution = direct coarsening of a base
    fs_ok = self.fs.clone()
    root = Node()
    root.tag = "mcool"
    resgrp = Node()
    root.children["resolutions"] = ("h", resgrp)
    overflow = False
    if refuse is None:
        for c, b in zip(bases, base_res):
            cc = c.copy()
            cc.pixels = cc.pixels[["bin1_id", "bin2_id"] + columns]
            resgrp.children[str(b)] = ("h", self._fresh(cc, "C09"))
        for r in sorted(set(resolutions)):
            if r in base_res:
                continue
            # any base that divides r gives the same result for fixed-width tables;
            # take the largest divisor, as a direct coarsening of that base
            cand = [(b, c) for b, c in zip(base_res, bases) if r % b == 0]
            b, c = max(cand, key=lambda t: t[0])
            cc = c.copy()
            cc.pixels = cc.pixels[["bin1_id", "bin2_id"] + columns]
            exp, ok = coarsen_model(cc, r // b, columns, op.get("agg") or {})
            if op.get("agg") and r // b > 1:
                # an aggregate over a chain equals the direct one only for max/min/sum (generated)
                pass
            overflow = overflow or not ok
            # a level inherits the value dtype of the base its chain started from: any base that
            # divides r is acceptable (the values are the same whatever the chain)
            exp.dtype_alternatives = {col: {str(c2.pixels[col].dtype) for b2, c2 in cand} for col in columns}
            resgrp.children[str(r)] = ("h", self._fresh(exp, "C09"))
    fs_ok.files[fid] = root
    uris = [uri_of(b["path"], self.fpath(b["file"])) for b in op["bases"]]
    out = self.fpath(fid)
    nproc = int(op.get("nproc", 1))
    if op.get("cli"):
        from click.testing import CliRunner
        from cooler.cli import cli

        args = ["zoomify", "-p", str(nproc), "-c", str(op["chunksize"]),
                "-r", ",".join(str(r) for r in resolutions), "-o", out]
        for u in uris[1:]:
            args += ["-i", u]
        for col in (op.get("fields_order") or op.get("columns") or []):
            a_ = (op.get("agg") or {}).get(col)
            args += ["--field", col + (":agg=" + a_ if a_ else "")]
        args.append(uris[0])

        def call():
            r = CliRunner().invoke(cli, args, catch_exceptions=False)
            if r.exit_code != 0:
                raise RuntimeError("cli exit %s: %s" % (r.exit_code, (r.output or "")[-200:]))
    else:
        kw = dict(chunksize=op["chunksize"], nproc=nproc)
        if op.get("columns"):
            kw["columns"] = list(op.get("fields_order") or op["columns"])
        if op.get("agg"):
            kw["agg"] = dict(op["agg"])

        # one list object of resolutions kept by the caller and handed to several calls
        res_arg = resolutions
        if op.get("res_object") == "keep":
            self._res_obj = list(resolutions)
            self._res_obj_orig = list(resolutions)
            res_arg = self._res_obj
        elif op.get("res_object") == "reuse":
            if getattr(self, "_res_obj", None) is None or self._res_obj_orig != list(resolutions):
                raise Skip("no kept resolutions list")
            res_arg = self._res_obj
            self.stat("resolutions-list-object-reused")

        def call():
            cooler.zoomify_cooler(uris if len(uris) > 1 or op.get("as_list") else uris[0], out, res_arg, **kw)
    fs_old = self.fs.clone()
    zfault = op.get("fault")
    self._arm_open_fault(zfault)
    self._arm_snapshots(fid)
    nconf0 = len(self.sim.flock_conflicts)
    exc, tracer = self._call(call, zfault)
    self._examine_crash_images("zoomify")
    if zfault is not None and exc is not None and exc[0] not in ("SimDeadlock", "StepLimit"):
        # the run stopped: a file that still passes for multi-resolution must hold every
        # requested level, complete
        self.stat("zoomify-stopped-by-fault")
        from cooler import fileops as _fo
        try:
            with warnings.catch_warnings():
                warnings.simplefilter("ignore")
                tagged = os.path.exists(out) and _fo.is_multires_file(out)
                if tagged and refuse is None:
                    got = _fo.list_coolers(out)
                    want = sorted("/resolutions/%s" % k for k in resgrp.children)
                    if sorted(got) != want:
                        self.violate("C09", "O-multires-incomplete",
                                     ["a zoomify run stopped by a fault left a file recognised as multi-resolution "
                                      "that holds %r instead of %r" % (got, want)])
        except Exception as e:
            self.violate("C09", "O-multires-incomplete", ["inspection raised %s" % type(e).__name__])
        fs_new = fs_old.clone()
        fs_new.files.pop(fid, None)
        if os.path.exists(out):
            os.remove(out)
        self.fs = fs_new
        self.sim.deadlock = None
        return exc, tracer
    if len(self.sim.flock_conflicts) > nconf0:
        self.violate("C09", "O-sched-flock",
                     ["simulated HDF5 file-lock conflict: %r" % (self.sim.flock_conflicts[nconf0],)])
    if exc is not None and exc[0] in ("SimDeadlock", "StepLimit"):
        self.violate("C09", "O-sched-deadlock", ["%s: %s" % exc])
    self.sim.deadlock = None
    if refuse is not None:
        if exc is None:
            self.violate("C09", "not-refused", ["zoomify must refuse: %s" % refuse])
        self.stat("refused:zoomify")
        # the output file is in an unspecified state after a refusal: forget it
        fs_new = fs_old.clone()
        fs_new.files.pop(fid, None)
        if os.path.exists(out):
            os.remove(out)
        self.fs = fs_new
        return exc, tracer
    if overflow:
        raise Skip("overflowing zoom level (C07/C08 cover overflow)")
    if exc is not None:
        self.violate("C09", "op-raised", ["zoomify raised %s: %s" % exc])
        fs_new = fs_old.clone()
        fs_new.files.pop(fid, None)
        if os.path.exists(out):
            os.remove(out)
        self.fs = fs_new
        return exc, tracer
    self._resolve([fs_ok], [fid], None, None, False)
    from cooler import fileops
    if not fileops.is_multires_file(out):
        self.violate("C09", "O-multires", ["is_multires_file is False for the zoomified file"])
    if nproc > 1:
        self.stat("pooled-zoomify-ok")
    return exc, tracer


def _op_legacyzoom(self, op):
    """legacy_zoomify / `cooler zoomify --legacy`: integer-labelled zoom levels n..0; level n is a
    copy of the base, level n-d the coarsening of the base by 2**d (whatever chain produced it).
    The output is examined directly and removed again: the link-tree model does not hold it."""
    import math

    import cooler
    from . import oracles

    s = op["src"]
    if s["file"] not in self.fs.files:
        raise Skip("source file missing")
    sn = self.fs.lookup(s["file"], s["path"])
    if sn is None or not isinstance(sn.coll, Coll):
        raise Skip("source missing")
    src = sn.coll
    b, _amb = src.binsize()
    if b is None:
        raise Skip("legacy zoomify needs a fixed bin size")
    n_tiles = math.ceil(sum(src.lengths) / (256 * int(b)))
    n_zooms = int(math.ceil(math.log2(n_tiles))) if n_tiles > 0 else 0
    out = os.path.join(self.S, "legacy_%d.mcool" % self.opidx)
    suri = uri_of(s["path"], self.fpath(s["file"]))
    nproc = int(op.get("nproc", 1))
    if op.get("cli"):
        from click.testing import CliRunner
        from cooler.cli import cli

        def call():
            r = CliRunner().invoke(cli, ["zoomify", "--legacy", "-p", str(nproc), "-c", str(op["chunksize"]),
                                         "-o", out, suri], catch_exceptions=False)
            if r.exit_code != 0:
                raise RuntimeError("cli exit %s: %s" % (r.exit_code, (r.output or "")[-200:]))
    else:
        from cooler._reduce import legacy_zoomify
        from cooler.parallel import lock as _lock

        def call():
            legacy_zoomify(suri, out, nproc, op["chunksize"], lock=_lock)
    self._arm_open_fault(None)
    self._arm_snapshots(None)
    nconf0 = len(self.sim.flock_conflicts)
    exc, tracer = self._call(call, None)
    try:
        if len(self.sim.flock_conflicts) > nconf0:
            self.violate("C09", "O-sched-flock",
                         ["simulated HDF5 file-lock conflict: %r" % (self.sim.flock_conflicts[nconf0],)])
        if exc is not None and exc[0] in ("SimDeadlock", "StepLimit"):
            self.violate("C09", "O-sched-deadlock", ["%s: %s" % exc])
            self.sim.deadlock = None
            return exc, tracer
        if exc is not None:
            self.violate("C09", "op-raised", ["legacy zoomify raised %s: %s" % exc])
            return exc, tracer
        self.stat("legacy-zoomify-levels", n_zooms + 1)
        errs = []
        with h5py.File(out, "r") as f:
            have = sorted(f.keys())
            attrs = {k: (int(v) if np.ndim(v) == 0 else v) for k, v in f.attrs.items()}
        want = sorted(str(i) for i in range(n_zooms + 1))
        if have != want:
            errs.append("zoom levels %r, expected %r" % (have, want))
        for d in range(n_zooms + 1):
            lvl = str(n_zooms - d)
            if lvl not in have:
                continue
            if d == 0:
                exp = src.copy()
            else:
                exp, ok = coarsen_model(src.copy(), 2 ** d, ["count"], {})
                if not ok:
                    raise Skip("overflowing zoom level")
                exp.pixels = exp.pixels[["bin1_id", "bin2_id", "count"]]
            if attrs.get(lvl) != int(b) * 2 ** d:
                errs.append("root attribute %r = %r, expected bin size %d" % (lvl, attrs.get(lvl), int(b) * 2 ** d))
            if d > 0:
                exp.metadata = None
            e1 = oracles.check_read(out + "::/" + lvl, exp, "level %s (base coarsened by %d): " % (lvl, 2 ** d), deep=True)
            if d > 0:
                e1 = [m for m in e1 if "metadata" not in m]
            errs += e1[:3]
            errs += oracles.check_struct(out, "/" + lvl, "level %s: " % lvl)[:3]
        if attrs.get("max-zoom") != n_zooms:
            errs.append("max-zoom %r, expected %d" % (attrs.get("max-zoom"), n_zooms))
        if errs:
            self.violate("C09", "O-read", errs[:6])
        elif nproc > 1:
            self.stat("pooled-legacy-zoomify-ok")
        return exc, tracer
    finally:
        if os.path.exists(out):
            os.remove(out)


StoreRun.op_merge = _op_merge
StoreRun.op_coarsen = _op_coarsen
StoreRun.op_zoomify = _op_zoomify
StoreRun.op_legacyzoom = _op_legacyzoom
StoreRun._finish_producer = _finish_producer


# ===========================================================================
# Single-cell files and renaming
# ===========================================================================
def _op_scool(self, op):
    import cooler
    from cooler import fileops

    fid, mode = op["file"], op.get("mode", "w")
    fault = op.get("fault")
    names, lengths, bm = self._layout(op)
    nb = len(bm)
    dtypes = op["dtypes"]
    cols = list(dtypes)
    columns = None if cols == ["count"] else cols
    dtypes_arg = None if dtypes == {"count": "int32"} else {c: _dt(d) for c, d in dtypes.items()}
    cells = op["cells"]  # name -> {"chunks": [...], "form": "df"|"iter", "bin_extra": {...}|None}
    order = sorted(cells)
    stored = {}
    for key in order:
        stored.setdefault(key.split("/")[-1], key)
    if len(stored) != len(order):
        raise Skip("cell names collide after stripping the prefix")
    base_bins = cooler_bins(names, bm)
    if op.get("bins_object") == "keep":
        self._bins_obj = base_bins
    elif op.get("bins_object") == "shrink":
        kept = getattr(self, "_bins_obj", None)
        if kept is None:
            raise Skip("no kept bin table")
        kept.drop(index=kept.index[len(base_bins):], inplace=True)     # the caller's in-place edit
        if len(kept) != len(base_bins) or list(kept["start"]) != list(base_bins["start"]) or \
                list(kept["chrom"]) != list(base_bins["chrom"]) or list(kept.columns) != list(base_bins.columns):
            raise Skip("kept bin table is not a prefix")
        base_bins = kept
        self.stat("bins-object-edited-in-place")
    per_cell_bins = any(c.get("bin_extra") for c in cells.values()) or op.get("bins_as_dict")
    exp = {}
    pix = {}
    fault_cell = fault.get("cell") if fault else None
    for key in order:
        c = cells[key]
        chunks = c["chunks"]
        cat = {k: sum((ch[k] for ch in chunks), []) for k in ["bin1_id", "bin2_id"] + cols}
        px = pixel_frame(cat, {cc: _dt(d) for cc, d in dtypes.items()})
        extra = {k: np.asarray(v, dtype=float) for k, v in (c.get("bin_extra") or {}).items()}
        exp[key] = Coll(names, lengths, bm, px, op["symmetric"], op.get("metadata"), op.get("assembly"), extra)
        use = list(chunks)
        f2_at = None
        if fault and fault_cell == key:
            if fault["kind"] == "F1":
                use[fault["chunk"]] = self._inject_f1(use[fault["chunk"]], fault, nb)
                self.fired("F1")
            elif fault["kind"] == "F2":
                f2_at = fault["chunk"]
        if c.get("form", "df") == "df" and f2_at is None:
            allc = {k: sum((ch[k] for ch in use), []) for k in ["bin1_id", "bin2_id"] + cols}
            pix[key] = self._chunk_obj(allc, dtypes, False)
        else:
            pix[key] = self._iter_chunks(use, dtypes, c.get("form") == "iterdict", f2_at)
    # the dicts handed to create_scool are filled in the recorded insertion order
    ins = [k for k in op.get("insert_order", order) if k in cells] or order
    pix = {k: pix[k] for k in ins}
    if per_cell_bins:
        bins_arg = {}
        for key in (list(reversed(ins)) if op.get("bins_reversed") else ins):
            b = base_bins.copy()
            for k, v in (cells[key].get("bin_extra") or {}).items():
                b[k] = np.asarray(v, dtype=float)
            how = (op.get("bins_index") or {}).get(key, "default")
            if how == "offset":
                b.index = np.arange(len(b)) + 1000      # row labels carry no meaning
            elif how == "permuted":
                b.index = np.arange(len(b))[::-1]
            bins_arg[key] = b
    else:
        bins_arg = base_bins
    fpath = self.fpath(fid)
    kw = dict(columns=columns, dtypes=dtypes_arg, metadata=op.get("metadata"), assembly=op.get("assembly"),
              ordered=True, symmetric_upper=op["symmetric"], mode=mode)
    fs_old = self.fs.clone()
    keep_cells = {}
    if mode == "a" and fid in self.fs.files:
        root = self.fs.files[fid]
        if root.tag == "scool" and not root.dirty and root.coll is None and fault is None:
            cg0 = root.children.get("cells")
            if cg0 is not None and cg0[0] == "h" and cg0[1].coll is not None:
                raise Skip("a collection was stored at /cells itself")
            if cg0 is not None and cg0[0] == "h":
                if not all(l[0] == "h" and isinstance(l[1].coll, Coll) for l in cg0[1].children.values()):
                    raise Skip("the existing single-cell file holds an incomplete cell")
                keep_cells = dict(cg0[1].children)
            self.stat("scool-appended-to-scool")
        elif root.coll is not None or root.dirty or "cells" in root.children or root.tag:
            raise Skip("append a scool only to a file whose root is free")
    self._arm_open_fault(fault if fault and fault.get("kind") in ("F4", "F10") else None)
    self._arm_snapshots(fid)
    exc, tracer = self._call(lambda: cooler.create_scool(fpath, bins_arg, pix, **kw), fault)

    def build(upto, failed_cell=None):
        fs = fs_old.clone()
        if mode == "w" or fid not in fs.files:
            fs.files[fid] = Node()
        root = fs.files[fid]
        root.tag = "scool"
        cg = Node()
        # cells of the earlier single-cell file keep their own (hard-linked) tables
        for k0 in keep_cells:
            kept = fs.lookup(fid, "/cells/" + k0)
            if kept is not None:
                cg.children[k0] = ("h", kept)
        root.children["cells"] = ("h", cg)
        for key in order[:upto]:
            cg.children[key.split("/")[-1]] = ("h", self._fresh(exp[key], "C17"))
        if failed_cell is not None:
            cg.children[failed_cell.split("/")[-1]] = ("h", self._fresh(None, None, dirty=True))
        return fs

    self._examine_crash_images("scool")
    if fault is None or fault["kind"] == "count-lines":
        if exc is not None:
            self.violate("C17", "op-raised", ["create_scool raised %s: %s" % exc])
            self.fs = fs_old.clone()
            self.fs.files.pop(fid, None)
            if os.path.exists(fpath):
                os.remove(fpath)
            return exc, tracer
        fs_ok = build(len(order))
        self._resolve([fs_ok], [fid], None, None, False)
        self._check_scool(fid, order, exp, extra_cells=[k for k in keep_cells
                                                         if k not in {o.split("/")[-1] for o in order}])
    else:
        k = order.index(fault_cell) if fault_cell in order else 0
        if exc is None and fault["kind"] in ("F1", "F2"):
            self.violate("C13", "not-rejected", ["scool cell fault %r accepted without an error" % (fault,)])
        if fault["kind"] in ("F1", "F2"):
            cands = [build(k, fault_cell)]
        else:
            cands = [build(j, order[j] if j < len(order) else None) for j in range(len(order), -1, -1)]
            cands += [build(j) for j in range(len(order), -1, -1)] + [fs_old]
            bare = fs_old.clone()
            if mode == "w" or fid not in bare.files:
                bare.files[fid] = Node()
            bare.files[fid].dirty = True
            cands.append(bare)
        dest = (fid, "/cells/" + fault_cell.split("/")[-1]) if fault_cell else None
        self._resolve(cands, [fid], fault, dest, False)
        # cells < k intact and still listed: C17 under a later cell's failure
        if fault_cell is None or k == 0:
            return exc, tracer
        try:
            with warnings.catch_warnings():
                warnings.simplefilter("ignore")
                got = fileops.list_coolers(fpath)
            for key in order[:k]:
                p = "/cells/" + key.split("/")[-1]
                if p not in got:
                    self.violate("C17", "O-cells-after-failure", ["cell %s no longer listed after a later "
                                                                  "cell's creation failed" % p])
        except Exception as e:
            self.violate("C17", "O-cells-after-failure", ["listing raised %s" % e])
    return exc, tracer


def _check_scool(self, fid, order, exp, extra_cells=()):
    from cooler import fileops
    from cooler.util import natsorted

    fpath = self.fpath(fid)
    errs = []
    with warnings.catch_warnings():
        warnings.simplefilter("ignore")
        try:
            if not fileops.is_scool_file(fpath):
                errs.append("is_scool_file is False")
            want = natsorted(["/cells/" + k.split("/")[-1] for k in order] + ["/cells/" + k for k in extra_cells])
            got = fileops.list_scool_cells(fpath)
            foreign = [p for p in self.fs.coolers(fid) if not p.startswith("/cells/")]
            if foreign:
                # a file that also holds non-cell collections: the property only
                # speaks of the cells given; demand that each is listed
                self.stat("scool-with-foreign-collections")
                if not set(want) <= set(got):
                    errs.append("list_scool_cells %r lacks cells of %r" % (got, want))
            elif got != want:
                errs.append("list_scool_cells %r != %r" % (got, want))
        except Exception as e:
            errs.append("scool recognition raised %s: %s" % (type(e).__name__, e))
        try:
            with h5py.File(fpath, "r") as f:
                for k in order:
                    g = f["/cells/" + k.split("/")[-1]]
                    for col in ("chrom", "start", "end"):
                        if not (g["bins"][col] == f["bins"][col]):
                            errs.append("cell %s bins/%s is not the shared root dataset" % (k, col))
                    if not (g["chroms"] == f["chroms"]):
                        errs.append("cell %s chroms is not the shared root table" % k)
                    if g["bins"] == f["bins"]:
                        errs.append("cell %s: its bins GROUP is the root's group (extra bin columns could not "
                                    "be kept per cell)" % k)
                    want_extra = set(exp[k].bin_extra)
                    got_extra = set(g["bins"].keys()) - {"chrom", "start", "end"}
                    if want_extra != got_extra:
                        errs.append("cell %s extra bin columns %r != %r" % (k, sorted(got_extra), sorted(want_extra)))
        except Exception as e:
            errs.append("shared-bins check raised %s: %s" % (type(e).__name__, e))
    if errs:
        self.violate("C17", "O-scool", errs)
    else:
        self.stat("scool-verified")


def _op_rename(self, op):
    import cooler

    fid, path = op["file"], op["path"]
    if fid not in self.fs.files:
        raise Skip("no file")
    node = self.fs.lookup(fid, path)
    if node is None or not isinstance(node.coll, Coll):
        raise Skip("no collection")
    if self.fs.canonical(fid, path) is None:
        raise Skip("renaming through an external link is not generated")
    rmap = {k: v for k, v in op["map"].items()}
    prev = getattr(self, "_last_rmap", None)
    if op.get("reuse_map") and prev is not None and prev[1] == op["map"]:
        # the caller applies ONE dict object to several coolers: it must still say what it said
        rmap = prev[0]
        self.stat("rename-map-object-reused")
    self._last_rmap = (rmap, dict(op["map"]))
    old = list(node.coll.chromnames)
    new = [op["map"].get(n, n) for n in old]      # what the caller's map SAYS (not what is left of it)
    if len(set(new)) != len(new):
        raise Skip("renaming would create duplicate names")
    uri = uri_of(path, self.fpath(fid), op.get("slash", True))
    key = (fid, path)
    # long-lived objects on this path (possibly stale: the file may have been renamed through
    # another handle since they were opened; re-created paths invalidate them)
    handles = [h for h in self.live.get(key, []) if h[1] == node.id]
    if op.get("held") and handles:
        clr = handles[0][0]
        self.stat("rename-via-held-object")
        if len(handles) > 1 or handles[0][2] != tuple(node.coll.chromnames):
            self.stat("rename-via-stale-held-object")
    else:
        clr = cooler.Cooler(uri)
    # what the old names returned, for "regions addressed by a new name return what the old name returned"
    before = {}
    with warnings.catch_warnings():
        warnings.simplefilter("ignore")
        fresh0 = cooler.Cooler(uri)
        # with very many chromosomes the by-name comparisons go over a sample: the first and the last
        # ones and up to 30 of those the map renames
        if len(old) > 60:
            renamed = [k for k, (o_, n_) in enumerate(zip(old, new)) if o_ != n_]
            step = max(1, len(renamed) // 30)
            sample = sorted(set(list(range(15)) + list(range(len(old) - 15, len(old))) + renamed[::step][:30]))
        else:
            sample = list(range(len(old)))
        for n in [old[k] for k in sample]:
            try:
                before[n] = (fresh0.extent(n), fresh0.matrix(balance=False).fetch(n).tolist()
                             if "count" in node.coll.pixels else None)
            except Exception as e:
                before[n] = ("raised", str(e))
    fs_new = self.fs.clone()
    n2 = fs_new.lookup(fid, path)
    n2.coll.chromnames = new
    n2.prop = "C18"
    n2.verified = False
    if not op.get("expect_failure"):
        self.live[key] = [h for h in handles if h[0] is not clr] + [(clr, n2.id, tuple(old))]
    # cells of a single-cell file share one chromosome table: renaming through one cell renames
    # all of them; the only consistent outcome is that every cell then uses the new names
    siblings = []
    root_new = fs_new.files[fid]
    canon = self.fs.canonical(fid, path) or path
    if root_new.tag == "scool" and canon.startswith("/cells/"):
        cg = root_new.children.get("cells")
        if cg is not None and cg[0] == "h":
            for cname, l in cg[1].children.items():
                if l[0] == "h" and l[1] is not n2 and isinstance(l[1].coll, Coll):
                    siblings.append("/cells/" + cname)
                    l[1].coll = INDET   # judged by the dedicated oracle below, not by O-read
    # selectors obtained from the object BEFORE the rename: lookups through them use the new names too
    pre_sel = None
    if not op.get("expect_failure"):
        try:
            with warnings.catch_warnings():
                warnings.simplefilter("ignore")
                pre_sel = (clr.bins(), clr.pixels(), clr.matrix(balance=False) if "count" in node.coll.pixels else None)
        except Exception:
            pre_sel = None
    self._arm_open_fault(None)
    self._arm_snapshots(None)
    exc, tracer = self._call(lambda: cooler.rename_chroms(clr, rmap), None)
    if op.get("expect_failure"):
        # a rename that cannot be carried out must leave the collection as it was
        if exc is None:
            self.stat("unstorable-name-accepted")
            self._resolve([fs_new, self.fs], [fid], None, None, False)
            return exc, tracer
        self.stat("rename-refused")
        node.verified = False
        node.prop = "C18"
        errs = oracles.check_read(uri, node.coll, "after a refused rename: ", deep=False)
        if errs:
            self.violate("C18", "O-rename-failed-intact", errs)
            node.coll = INDET
        self._resolve([self.fs], [fid], None, None, False)
        return exc, tracer
    if exc is not None:
        self.violate("C18", "op-raised", ["rename_chroms raised %s: %s" % exc])
        self._resolve([self.fs, fs_new], [fid], None, None, False)
        return exc, tracer
    # immediately, on the same object
    errs = oracles.check_read(uri, n2.coll, "same object: ", deep=False, cooler_obj=clr)
    with warnings.catch_warnings():
        warnings.simplefilter("ignore")
        reopened = None
        for o, nn in [(old[k], new[k]) for k in sample]:
            for label, c in (("same object", clr), ("reopened", None)):
                try:
                    if c is None:
                        if reopened is None:
                            reopened = cooler.Cooler(uri)
                        c = reopened
                    got = (c.extent(nn), c.matrix(balance=False).fetch(nn).tolist()
                           if "count" in node.coll.pixels else None)
                    if got != before[o]:
                        errs.append("%s: region %r does not return what %r returned" % (label, nn, o))
                    if nn != o and o not in new:
                        try:
                            c.extent(o)
                            errs.append("%s: old name %r still resolves" % (label, o))
                        except Exception:
                            pass
                except Exception as e:
                    errs.append("%s: lookup by new name %r raised %s: %s" % (label, nn, type(e).__name__, str(e)[:80]))
    if pre_sel is not None and not errs:
        with warnings.catch_warnings():
            warnings.simplefilter("ignore")
            fresh1 = cooler.Cooler(uri)
            for o, nn in [(old[k], new[k]) for k in sample]:
                try:
                    a = pre_sel[0].fetch(nn)
                    b = fresh1.bins().fetch(nn)
                    if len(a) != len(b) or list(a["start"]) != list(b["start"]):
                        errs.append("selector obtained before the rename: bins().fetch(%r) differs" % nn)
                    if len(pre_sel[1].fetch(nn)) != len(fresh1.pixels().fetch(nn)):
                        errs.append("selector obtained before the rename: pixels().fetch(%r) differs" % nn)
                    if pre_sel[2] is not None and pre_sel[2].fetch(nn).tolist() != before[o][1]:
                        errs.append("selector obtained before the rename: matrix().fetch(%r) differs" % nn)
                except Exception as e:
                    errs.append("selector obtained before the rename: lookup by new name %r raised %s" % (
                        nn, type(e).__name__))
                    break
    if errs:
        self.violate("C18", "O-rename", errs)
    else:
        self.stat("rename-verified")
    serrs = []
    with warnings.catch_warnings():
        warnings.simplefilter("ignore")
        for sp in siblings:
            try:
                c = cooler.Cooler(uri_of(sp, self.fpath(fid)))
                labels = sorted(set(str(x) for x in c.bins()[:]["chrom"]))
                if not set(labels) <= set(c.chromnames):
                    serrs.append("[rename through a scool cell] sibling cell %s: chromosome table says %r but its "
                                 "bin labels are %r" % (sp, c.chromnames, labels))
            except Exception as e:
                serrs.append("[rename through a scool cell] sibling cell %s unreadable: %s" % (sp, type(e).__name__))
    if serrs:
        self.violate("C18", "O-rename-scool-siblings", serrs)
    elif siblings:
        self.stat("scool-siblings-consistent")
    self._resolve([fs_new], [fid], None, None, False)
    return exc, tracer


def _op_hold(self, op):
    """Create a long-lived Cooler object that a later rename goes through."""
    import cooler

    fid, path = op["file"], op["path"]
    if fid not in self.fs.files:
        raise Skip("no file")
    node = self.fs.lookup(fid, path)
    if node is None or not isinstance(node.coll, Coll):
        raise Skip("no collection")
    self.live.setdefault((fid, path), []).append(
        (cooler.Cooler(uri_of(path, self.fpath(fid))), node.id, tuple(node.coll.chromnames)))
    return None, None


def _op_intify(self, op):
    """Rewrite bins/chrom as plain integers + enum_path: the schema's
    integer-encoded chromosome column (a valid variant)."""
    fid, path = op["file"], op["path"]
    if fid not in self.fs.files:
        raise Skip("no file")
    node = self.fs.lookup(fid, path)
    if node is None or not isinstance(node.coll, Coll) or self.fs.canonical(fid, path) is None:
        raise Skip("no collection")
    with h5py.File(self.fpath(fid), "r+") as f:
        g = f[path]["bins"]
        ids = g["chrom"][:].astype(np.int32)
        del g["chrom"]
        d = g.create_dataset("chrom", data=ids, dtype=np.int32)
        d.attrs["enum_path"] = "/chroms/name"
    node.coll.chrom_enum = False
    self.stat("intified")
    return None, None


def _op_dropmode(self, op):
    """Remove the storage-mode attribute of a symmetric-upper collection: files written before the
    attribute existed (format v2) lack it and are symmetric-upper by definition."""
    fid, path = op["file"], op["path"]
    if fid not in self.fs.files:
        raise Skip("no file")
    node = self.fs.lookup(fid, path)
    if node is None or not isinstance(node.coll, Coll) or not node.coll.symmetric or \
            self.fs.canonical(fid, path) is None:
        raise Skip("no symmetric collection")
    with h5py.File(self.fpath(fid), "r+") as f:
        f[path].attrs.pop("storage-mode", None)
    node.coll.no_mode_attr = True
    self.stat("storage-mode-attribute-dropped")
    return None, None


def _op_restart(self, op):
    """Drop every cached object, as a new process would start."""
    self.live.clear()
    gc.collect()
    return None, None


StoreRun.op_scool = _op_scool
StoreRun._check_scool = _check_scool
StoreRun.op_rename = _op_rename
StoreRun.op_hold = _op_hold
StoreRun.op_intify = _op_intify
StoreRun.op_restart = _op_restart
StoreRun.op_dropmode = _op_dropmode


# ===========================================================================
# Text loading through the command line (`cooler load -f coo`)
# ===========================================================================
def _op_cliload(self, op):
    from click.testing import CliRunner
    from cooler.cli import cli

    fid, path, mode = op["file"], op["path"], op.get("mode", "a")
    names, lengths, bm = self._layout(op)
    if fid in self.fs.files and path != "/":
        parent = "/" + "/".join(split(path)[:-1])
        if self.fs.canonical(fid, parent, partial=True) is None:
            raise Skip("destination parent behind an external link")
    rec = op["records"]  # {"bin1_id": [...], "bin2_id": [...], "count": [...]} unique pixels, any order
    px = pixel_frame(rec, {"count": _dt("int32")}).sort_values(["bin1_id", "bin2_id"]).reset_index(drop=True)
    exp = Coll(names, lengths, bm, px, op["symmetric"], None, None)
    tag = "in%d" % self.opidx
    txt = os.path.join(self.S, tag + ".coo.txt")
    with open(txt, "w") as f:
        if op.get("duplex"):
            # both copies of every off-diagonal pixel are listed (--input-copy-status duplex): the
            # lower-triangle copies are dropped, whole chunks of them included
            lines = []
            for i, j, v in zip(rec["bin1_id"], rec["bin2_id"], rec["count"]):
                lines.append((i, j, v))
                if i != j:
                    lines.append((j, i, v))
            order = op["duplex"]
            if order == "lower-first":
                lines.sort(key=lambda t: (t[0] <= t[1], t[0], t[1]))
            elif order == "upper-first":
                lines.sort(key=lambda t: (t[0] > t[1], t[0], t[1]))
            for i, j, v in lines:
                f.write("%d\t%d\t%d\n" % (i, j, v))
        else:
            for i, j, v in zip(rec["bin1_id"], rec["bin2_id"], rec["count"]):
                f.write("%d\t%d\t%d\n" % (i, j, v))
    if op.get("binspec") == "chromsizes":
        cs = os.path.join(self.S, tag + ".chrom.sizes")
        with open(cs, "w") as f:
            for n, L in zip(names, lengths):
                f.write("%s\t%d\n" % (n, L))
        bins_arg = "%s:%d" % (cs, op["binsize"])
    else:
        bed = os.path.join(self.S, tag + ".bins.bed")
        with open(bed, "w") as f:
            for c, s, e in zip(bm["chrom"].values, bm["start"].values, bm["end"].values):
                f.write("%s\t%d\t%d\n" % (names[c], s, e))
        bins_arg = bed
    uri = uri_of(path, self.fpath(fid), op.get("slash", True))
    args = ["load", "-f", "coo", "--chunksize", str(op["chunksize"]), "--max-merge", str(op["max_merge"])]
    if op.get("mergebuf"):
        args += ["--mergebuf", str(op["mergebuf"])]
    if not op["symmetric"]:
        args.append("--no-symmetric-upper")
    if op.get("duplex"):
        args += ["--input-copy-status", "duplex"]
    if mode == "a":
        args.append("--append")
    args += [bins_arg, txt, uri]

    def call():
        r = CliRunner().invoke(cli, args, catch_exceptions=False)
        if r.exit_code != 0:
            raise RuntimeError("cli exit %s: %s" % (r.exit_code, (r.output or "")[-300:]))

    fs_old = self.fs.clone()
    dest_before = self.fs.lookup(fid, path) if fid in self.fs.files else None
    held_before = dest_before is not None and dest_before.kind == "group" and dest_before.coll is not None
    self._arm_open_fault(None)
    self._arm_snapshots(fid)
    exc, tracer = self._call(call, None)
    for p in (txt,):
        try:
            os.remove(p)
        except OSError:
            pass
    left = sorted(glob.glob(os.path.join(self.S, "*.multi.cool")))
    if left and exc is None:
        self.violate("C06", "O-temp", ["temporary file(s) outlive a successful `cooler load`: %d" % len(left)])
    for p in left:
        try:
            os.remove(p)
        except OSError:
            pass
    self._finish_producer(op, "C06", exc, exp, None, False, fs_old, fid, path, mode, held_before, early_refusal=True)
    return exc, tracer


StoreRun.op_cliload = _op_cliload


# ===========================================================================
# One directed end-to-end creation with > 1e6 pixels (C02, thorough tier):
# crosses index_pixels' real 1_000_000-row block boundary with the knob off.
# ===========================================================================
def _op_bigcreate(self, op):
    import cooler

    counts = [int(x) for x in op["nbins"]]
    n = sum(counts)
    b = 10
    names = ["big%d" % (k + 1) for k in range(len(counts))]
    # the first chromosome ends in a short bin, the others are exact multiples of the width
    lengths = [counts[0] * b - 3] + [c * b for c in counts[1:]]
    edges = [[k * b for k in range(counts[0])] + [lengths[0]]] + [[k * b for k in range(c + 1)] for c in counts[1:]]
    bm = bins_frame(names, edges)
    i, j = np.triu_indices(n)
    keep = ((i * 7 + j) % op.get("thin", 1)) == 0
    i, j = i[keep], j[keep]
    cnt = ((i * 31 + j) % 7 + 1).astype(np.int32)
    px = pd.DataFrame({"bin1_id": i.astype(np.int64), "bin2_id": j.astype(np.int64), "count": cnt})
    exp = Coll(names, lengths, bm, px, True, None, None)
    cuts = [0] + [int(len(px) * f) for f in op["splits"]] + [len(px)]
    fid, path = op["file"], op["path"]
    uri = uri_of(path, self.fpath(fid))
    binsdf = cooler_bins(names, bm)

    def chunks():
        for lo, hi in zip(cuts[:-1], cuts[1:]):
            yield px.iloc[lo:hi]

    saved = seams.RLE_BLOCK[0]
    seams.RLE_BLOCK[0] = None
    fs_old = self.fs.clone()
    self._arm_open_fault(None)
    self._arm_snapshots(None)
    try:
        exc, tracer = self._call(lambda: cooler.create_cooler(uri, binsdf, chunks(), ordered=True, mode="a",
                                                               h5opts={"compression": "lzf"}), None)
    finally:
        seams.RLE_BLOCK[0] = saved
    self.stat("big-create-pixels", len(px))
    if len(px) > 1_000_000:
        self.stat("real-rle-block-boundary-crossed")
    self._finish_producer(op, "C01", exc, exp, None, False, fs_old, fid, path, "a", False, early_refusal=True)
    return exc, tracer


StoreRun.op_bigcreate = _op_bigcreate


# ===========================================================================
# `cooler cload pairs`: binning + unordered ingestion through the command line
# ===========================================================================
def _op_clipairs(self, op):
    from click.testing import CliRunner
    from cooler.cli import cli

    fid, path, mode = op["file"], op["path"], op.get("mode", "a")
    names, lengths, bm = self._layout(op)
    if fid in self.fs.files and path != "/":
        parent = "/" + "/".join(split(path)[:-1])
        if self.fs.canonical(fid, parent, partial=True) is None:
            raise Skip("destination parent behind an external link")
    rec = op["records"]  # unique pixels with small counts
    px = pixel_frame(rec, {"count": _dt("int32")}).sort_values(["bin1_id", "bin2_id"]).reset_index(drop=True)
    exp = Coll(names, lengths, bm, px, op["symmetric"], None, None)
    tag = "in%d" % self.opidx
    txt = os.path.join(self.S, tag + ".pairs.txt")
    chrom = bm["chrom"].values
    start = bm["start"].values
    end = bm["end"].values
    with open(txt, "w") as f:
        f.write("## pairs format v1.0\n")
        for c1, p1, c2, p2 in op["lines"]:
            f.write("r\t%s\t%d\t%s\t%d\t+\t-\n" % (names[c1], p1, names[c2], p2))
    bed = os.path.join(self.S, tag + ".bins.bed")
    with open(bed, "w") as f:
        for c, s_, e_ in zip(chrom, start, end):
            f.write("%s\t%d\t%d\n" % (names[c], s_, e_))
    uri = uri_of(path, self.fpath(fid), op.get("slash", True))
    args = ["cload", "pairs", "-c1", "2", "-p1", "3", "-c2", "4", "-p2", "5", "--chunksize", str(op["chunksize"]),
            "--max-merge", str(op["max_merge"])]
    if op.get("mergebuf"):
        args += ["--mergebuf", str(op["mergebuf"])]
    if not op["symmetric"]:
        args.append("--no-symmetric-upper")
    if mode == "a":
        args.append("--append")
    args += [bed, txt, uri]

    def call():
        r = CliRunner().invoke(cli, args, catch_exceptions=False)
        if r.exit_code != 0:
            raise RuntimeError("cli exit %s: %s" % (r.exit_code, (r.output or "")[-300:]))

    fs_old = self.fs.clone()
    dest_before = self.fs.lookup(fid, path) if fid in self.fs.files else None
    held_before = dest_before is not None and dest_before.kind == "group" and dest_before.coll is not None
    self._arm_open_fault(None)
    self._arm_snapshots(fid)
    exc, tracer = self._call(call, None)
    left = sorted(glob.glob(os.path.join(self.S, "*.multi.cool")))
    if left and exc is None:
        self.violate("C06", "O-temp", ["temporary file(s) outlive a successful `cooler cload pairs`: %d" % len(left)])
    for p in left + [txt]:
        try:
            os.remove(p)
        except OSError:
            pass
    self._finish_producer(op, "C06", exc, exp, None, False, fs_old, fid, path, mode, held_before, early_refusal=True)
    return exc, tracer


StoreRun.op_clipairs = _op_clipairs


# ===========================================================================
# `cooler cload tabix -p N`: TabixAggregator tasks under SimPool.imap
# (in-order delivery is what keeps the ordered create's input sorted)
# ===========================================================================
def _op_clitabix(self, op):
    import pysam
    from click.testing import CliRunner
    from cooler.cli import cli

    fid, path = op["file"], op["path"]
    names, lengths, bm = self._layout(op)
    if path != "/":
        raise Skip("cload tabix writes a whole file")
    rec = op["records"]
    px = pixel_frame(rec, {"count": _dt("int32")}).sort_values(["bin1_id", "bin2_id"]).reset_index(drop=True)
    exp = Coll(names, lengths, bm, px, True, None, op.get("assembly"))
    tag = "in%d" % self.opidx
    txt = os.path.join(self.S, tag + ".pairs.txt")
    with open(txt, "w") as f:
        for c1, p1, c2, p2 in op["lines"]:   # already sorted by (chrom1 index, pos1)
            f.write("%s\t%d\t+\t%s\t%d\t-\n" % (names[c1], p1, names[c2], p2))
    gz = txt + ".gz"
    pysam.tabix_compress(txt, gz, force=True)
    pysam.tabix_index(gz, seq_col=0, start_col=1, end_col=1, zerobased=False, force=True)
    bed = os.path.join(self.S, tag + ".bins.bed")
    with open(bed, "w") as f:
        for c, s_, e_ in zip(bm["chrom"].values, bm["start"].values, bm["end"].values):
            f.write("%s\t%d\t%d\n" % (names[c], s_, e_))
    out = self.fpath(fid)
    nproc = int(op.get("nproc", 1))
    args = ["cload", "tabix", "-p", str(nproc), "--max-split", str(op.get("max_split", 2))]
    if op.get("assembly"):
        args += ["--assembly", op["assembly"]]
    args += [bed, gz, out]

    def call():
        r = CliRunner().invoke(cli, args, catch_exceptions=False)
        if r.exit_code != 0:
            raise RuntimeError("cli exit %s: %s" % (r.exit_code, (r.output or "")[-300:]))

    fs_old = self.fs.clone()
    self._arm_open_fault(None)
    self._arm_snapshots(fid)
    nconf0 = len(self.sim.flock_conflicts)
    exc, tracer = self._call(call, None)
    for p in (txt, gz, gz + ".tbi", bed):
        try:
            os.remove(p)
        except OSError:
            pass
    if exc is not None and exc[0] in ("SimDeadlock", "StepLimit"):
        self.violate("C02", "O-sched-deadlock", ["cload tabix: %s: %s" % exc])
    self.sim.deadlock = None
    if nproc > 1 and exc is None:
        self.stat("pooled-tabix-ok")
    self._finish_producer(op, "C02", exc, exp, None, False, fs_old, fid, "/", "w", False, early_refusal=True)
    return exc, tracer


StoreRun.op_clitabix = _op_clitabix
