"""Debug helper: run one generated run index in-process and print everything."""
import json
import sys

from coolsim import checks, runner


def main():
    prop, index = sys.argv[1], int(sys.argv[2])
    tier = sys.argv[3] if len(sys.argv) > 3 else "quick"
    spec = checks.make_specs(prop, tier, 0, index + 1)[index]
    spec["keep_ops"] = True
    s = runner.execute(spec)
    for i, o in enumerate(checks.abbreviate(s["ops"])):
        print(i, json.dumps(o)[:400])
    for v in s["violations"]:
        print("VIOL", v)
    print(s["stats"], s["faults"])


if __name__ == "__main__":
    main()
