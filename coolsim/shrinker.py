"""Minimisation of a failing run: delta-debugging over the explicit operation
list, then argument shrinking, fault and schedule simplification.  A candidate
is kept only while the same violation class (property, oracle) persists."""
from __future__ import annotations

import copy
import time


def _viol(summary, cls, accept=None):
    for v in summary.get("violations", []):
        if (v["prop"], v["oracle"]) == cls and (accept is None or accept(v)):
            return v
    return None


def minimise(spec, cls, execute, same_class, budget_s, accept=None):
    """accept(v): further condition on the violation that must persist (the runner passes "not a
    listed known finding", so that minimising an unlisted violation can never end at a listed one
    of the same oracle)."""
    t_end = time.time() + budget_s
    best = copy.deepcopy(spec)
    best_v = [None]

    def ok(cand):
        if time.time() > t_end:
            return False
        try:
            s = execute(cand)
        except BaseException:
            return False
        if "harness_error" in s:
            return False
        v = _viol(s, cls, accept)
        if v is not None:
            best_v[0] = v
            return True
        return False

    if not ok(best):
        return spec, None  # not reproducible in-process: report unshrunk
    if "ops" in best and best["ops"] is not None:
        # 1. truncate after the violating op
        v = best_v[0]
        if isinstance(v.get("op"), int) and v["op"] + 1 < len(best["ops"]):
            cand = copy.deepcopy(best)
            cand["ops"] = cand["ops"][: v["op"] + 1]
            if ok(cand):
                best = cand
        # 2. ddmin over ops
        n = 2
        ops = best["ops"]
        while len(ops) >= 2 and time.time() < t_end:
            size = max(1, len(ops) // n)
            removed = False
            for start in range(0, len(ops), size):
                cand = copy.deepcopy(best)
                cand["ops"] = ops[:start] + ops[start + size:]
                if cand["ops"] and ok(cand):
                    best = cand
                    ops = best["ops"]
                    n = max(n - 1, 2)
                    removed = True
                    break
            if not removed:
                if size == 1:
                    break
                n = min(len(ops), n * 2)
        # 3. argument shrinking per op
        for k in range(len(best["ops"])):
            for simp in _simplifications(best["ops"][k]):
                if time.time() > t_end:
                    break
                cand = copy.deepcopy(best)
                cand["ops"][k] = simp
                if ok(cand):
                    best = cand
    # 4. schedule simplification: zeros, truncation
    sch = best.get("schedule")
    if sch:
        cand = copy.deepcopy(best)
        cand["schedule"] = []
        if ok(cand):
            best = cand
        else:
            lo = len(sch)
            while lo > 0 and time.time() < t_end:
                lo //= 2
                cand = copy.deepcopy(best)
                cand["schedule"] = sch[:lo]
                if ok(cand):
                    best = cand
                    sch = best["schedule"]
                else:
                    break
    ok(best)
    return best, best_v[0]


def _simplifications(op):
    """Candidate simpler versions of one op (each tried independently)."""
    out = []
    if op.get("op") == "create":
        if op.get("h5opts"):
            o = copy.deepcopy(op); o["h5opts"] = None; out.append(o)
        if op.get("metadata") is not None:
            o = copy.deepcopy(op); o["metadata"] = None; out.append(o)
        if op.get("assembly") is not None:
            o = copy.deepcopy(op); o["assembly"] = None; out.append(o)
        if op.get("bin_extra"):
            o = copy.deepcopy(op); o["bin_extra"] = None; out.append(o)
        chunks = op.get("chunks") or []
        if len(chunks) > 1 and not op.get("fault"):
            # merge all chunks into one (ordered) / drop chunks (unordered)
            if op.get("unordered"):
                for k in range(len(chunks)):
                    o = copy.deepcopy(op); del o["chunks"][k]; out.append(o)
            else:
                o = copy.deepcopy(op)
                o["chunks"] = [{c: sum((ch[c] for ch in chunks), []) for c in chunks[0]}]
                out.append(o)
        # halve the records of each chunk
        for k, ch in enumerate(chunks):
            n = len(ch["bin1_id"])
            if n > 1 and not op.get("fault") and op.get("form") != "array":
                for sl in (slice(0, n // 2), slice(n // 2, n)):
                    o = copy.deepcopy(op)
                    o["chunks"][k] = {c: v[sl] for c, v in ch.items()}
                    out.append(o)
        if op.get("unordered"):
            for key, val in (("mergebuf", 20_000_000), ("max_merge", 200)):
                if op["unordered"].get(key) != val:
                    o = copy.deepcopy(op); o["unordered"][key] = val; out.append(o)
    f = op.get("fault")
    if f:
        # fault simplification: earliest chunk, first position, simplest kind, earliest line/open/task
        k = f.get("kind")
        if k == "F1":
            for key, val in (("chunk", 0), ("pos", "first"), ("sub", "oob")):
                if f.get(key) != val:
                    o = copy.deepcopy(op); o["fault"][key] = val; out.append(o)
        elif k == "F2" and f.get("chunk"):
            o = copy.deepcopy(op); o["fault"]["chunk"] = 0; out.append(o)
            o = copy.deepcopy(op); o["fault"]["chunk"] = f["chunk"] - 1; out.append(o)
        elif k == "F3" and f.get("line", 1) > 1:
            for ln in (1, f["line"] // 2, f["line"] - 1):
                if ln >= 1 and ln != f["line"]:
                    o = copy.deepcopy(op); o["fault"]["line"] = ln; out.append(o)
        elif k == "F4" and f.get("open"):
            o = copy.deepcopy(op); o["fault"]["open"] = 0; out.append(o)
            o = copy.deepcopy(op); o["fault"]["open"] = f["open"] - 1; out.append(o)
        elif k == "F6" and f.get("task"):
            o = copy.deepcopy(op); o["fault"]["task"] = 0; out.append(o)
    for key in ("nproc",):
        if op.get(key, 1) > 1:
            o = copy.deepcopy(op); o[key] = 1; out.append(o)
            if op[key] > 2:
                o = copy.deepcopy(op); o[key] = 2; out.append(o)
    return out
