"""Seams: everything through which cooler meets nondeterminism or faults.

All seams are module/class attributes patched from here (no hook in /repo is
needed).  Every seam passes straight through to the real implementation when
no simulation is active (`kernel.SIM is None`).
"""
from __future__ import annotations

import collections
import datetime as _dt
import os
import re
import sys
import types
import weakref

import dill
import h5py

from . import kernel
from .kernel import SimAbort

REPO_ROOT = os.path.realpath(os.environ.get("COOLSIM_REPO", "/repo"))
REPO_SRC = REPO_ROOT + "/src/cooler/"

_orig_file_init = h5py.File.__init__
_orig_file_close = h5py.File.close
_installed = False
_real = {}

WRITE_MODES = ("r+", "w", "w-", "x", "a")


# --------------------------------------------------------------------- names
class Namer:
    """Normalises paths for the event log: scratch dir -> $S, temp files ->
    tmp#k in order of first appearance."""

    _tmp = re.compile(r"tmp[A-Za-z0-9_]{6,12}(?=\.multi\.cool|\b)")

    def __init__(self, scratch):
        self.scratch = os.path.realpath(scratch)
        self.tmpnames = {}

    def __call__(self, path):
        s = str(path)
        if s.startswith(self.scratch):
            s = "$S" + s[len(self.scratch):]

        def sub(m):
            k = m.group(0)
            if k not in self.tmpnames:
                self.tmpnames[k] = "tmp#%d" % len(self.tmpnames)
            return self.tmpnames[k]

        return self._tmp.sub(sub, s)


# ---------------------------------------------------------------- flock model
class FlockTable:
    """Model of HDF5's inter-process file locking (measured on HDF5 2.0.0 /
    h5py 3.16 with two real processes): readers share, a writer excludes."""

    def __init__(self):
        self.entries = []  # [pid, realpath, is_write, weakref(File) | liveness callable]

    def _live(self):
        out = []
        for e in self.entries:
            f = e[3]()
            if f is True:
                out.append(e)          # an inherited descriptor: alive while its process is
            elif f is not None and f is not False:
                try:
                    ok = bool(f.id.valid)
                except Exception:
                    ok = False
                if ok:
                    out.append(e)
        self.entries = out
        return out

    def inherit(self, parent_pid, child_pid, alive):
        """fork(): the child gets a copy of every descriptor the parent holds, and with it the
        file lock, until the child exits (flock locks belong to the open file description)."""
        n = 0
        for e in list(self._live()):
            if e[0] == parent_pid:
                self.entries.append([child_pid, e[1], e[2], alive])
                n += 1
        return n

    def conflict(self, pid, path, is_write):
        for e in self._live():
            if e[0] != pid and e[1] == path and (is_write or e[2]):
                return e
        return None

    def register(self, pid, path, is_write, fobj):
        self.entries.append([pid, path, is_write, weakref.ref(fobj)])

    def unregister(self, fobj):
        for k, e in enumerate(self.entries):
            if e[3]() is fobj:
                del self.entries[k]
                return e
        return None

    def holders(self, path):
        return [(e[0], e[2]) for e in self._live() if e[1] == path]


def _sim_file_init(self, name, mode="r", *args, **kwargs):
    sim = kernel.SIM
    if sim is None or not isinstance(name, (str, bytes, os.PathLike)):
        return _orig_file_init(self, name, mode, *args, **kwargs)
    if isinstance(name, bytes):
        pname = name.decode()
    else:
        pname = os.fspath(name)
    path = os.path.realpath(pname)
    norm = sim.namer(path)
    me = sim.me()
    is_write = mode in WRITE_MODES
    sim.step("open?", (norm, mode))
    hook = sim.hooks.get("open")
    if hook is not None:
        hook(norm, mode)  # F4: may raise OSError
    c = sim.flock.conflict(me.pid, path, is_write)
    if c is not None:
        sim.emit("flock-conflict", (norm, mode, sim.procs_name(c[0]), c[2]))
        sim.count("flock-conflict")
        sim.flock_conflicts.append((me.name, norm, mode, sim.procs_name(c[0]), c[2]))
        raise BlockingIOError(
            11,
            "Unable to synchronously open file (unable to lock file, errno = 11, "
            "error message = 'Resource temporarily unavailable')",
        )
    _orig_file_init(self, name, mode, *args, **kwargs)
    sim.flock.register(me.pid, path, is_write, self)
    if len(sim.procs) > 1:
        held = sim.flock.holders(path)
        if any(p != me.pid for p, _w in held):
            sim.count("shared-open")
    try:
        sim.step("open", (norm, mode))
    except BaseException:
        sim.flock.unregister(self)
        _orig_file_close(self)
        raise


def _sim_file_close(self):
    sim = kernel.SIM
    if sim is None:
        return _orig_file_close(self)
    valid = False
    try:
        valid = bool(self.id.valid)
    except Exception:
        pass
    if not valid:
        return _orig_file_close(self)
    e = sim.flock.unregister(self)
    _orig_file_close(self)
    if e is not None:
        sim.emit("close", (sim.namer(e[1]), "w" if e[2] else "r"))
        hook = sim.hooks.get("close")
        if hook is not None:
            # NOTE: h5py's global lock is held here: no yield, no h5py call.
            hook(e[1], e[2])


# ------------------------------------------------------------ flush
_orig_file_flush = h5py.File.flush


def _sim_file_flush(self):
    sim = kernel.SIM
    if sim is not None:
        hook = sim.hooks.get("flush")
        if hook is not None:
            hook()   # F10: may raise OSError (EIO / ENOSPC surfacing when buffered data are forced out)
    return _orig_file_flush(self)


# ------------------------------------------------------------ attribute writes
_orig_attr_create = h5py.AttributeManager.create


def _sim_attr_create(self, name, data, *args, **kwargs):
    sim = kernel.SIM
    if sim is not None:
        hook = sim.hooks.get("attr")
        if hook is not None:
            hook(name)   # F9: may raise OSError (ENOSPC / EIO on this attribute write)
    return _orig_attr_create(self, name, data, *args, **kwargs)


# ----------------------------------------------------------------------- lock
class SimLock:
    """Stand-in for the `multiprocess.Lock` shared with forked workers: a
    non-reentrant mutex owned by a simulated process.  acquire/release are
    yield points; a waiting process is not runnable."""

    def __init__(self):
        self.owner = None
        self.acquires = 0

    def reset(self):
        self.owner = None

    def acquire(self, block=True, timeout=None):
        sim = kernel.SIM
        if sim is None:
            if self.owner is not None:
                raise RuntimeError("SimLock: would block outside a simulation")
            self.owner = "nosim"
            return True
        me = sim.me()
        if self.owner is not None:
            sim.count("lock-contended")
            sim.emit("lock-wait", self.owner)
        sim.step("lock-req", None, pred=lambda: self.owner is None, waitdesc="lock")
        self.owner = me.name
        self.acquires += 1
        sim.emit("lock-acq")
        return True

    def release(self):
        sim = kernel.SIM
        if self.owner is None:
            raise ValueError("semaphore or lock released too many times")
        self.owner = None
        if sim is not None:
            sim.step("lock-rel")

    def __enter__(self):
        self.acquire()
        return self

    def __exit__(self, *a):
        self.release()


SIMLOCK = SimLock()


# ----------------------------------------------------------------------- pool
class RemoteError(Exception):
    pass


class _Job:
    def __init__(self, pool, kind, nchunks):
        self.pool = pool
        self.kind = kind
        self.no = pool._next_job()
        self.n = nchunks
        self.left = nchunks
        self.results = {}
        self.order = collections.deque()
        self.first_failure = None

    def deliver(self, i, ok, payload):
        self.left -= 1
        self.results[i] = (ok, payload)
        self.order.append(i)
        if not ok and self.first_failure is None:
            self.first_failure = payload


def _copy_exc(e):
    try:
        return dill.loads(dill.dumps(e))
    except Exception:
        return RemoteError("%s: %s" % (type(e).__name__, e))


class SimPool:
    """In-simulation replacement for multiprocess.Pool.  Semantics copied from
    multiprocess.pool.Pool: function and arguments are dill-copied at
    submission and results dill-copied back (process isolation and
    picklability are real); `map` blocks until every chunk finished and
    returns in order, raising the first failure only after all finished;
    `imap` delivers lazily in submission order; `imap_unordered` delivers in
    completion order; workers take task chunks FIFO."""

    def __init__(self, processes=None, initializer=None, initargs=(), maxtasksperchild=None, *a, copy=True, **kw):
        sim = kernel.SIM
        self.sim = sim
        # copy=False models a THREAD pool (multiprocess.pool.ThreadPool, ThreadPoolExecutor.map):
        # the callable, its arguments and results are shared objects, not pickled copies
        self.copy = copy
        # serializer="pickle" models the standard library's process pools (multiprocessing.Pool,
        # ProcessPoolExecutor), which pickle tasks with pickle rather than dill
        import pickle as _pickle
        self._ser = _pickle if kw.pop("serializer", "dill") == "pickle" else dill
        self.n = int(processes) if processes else (os.cpu_count() or 1)
        if self.n < 1:
            raise ValueError("Number of processes must be at least 1")
        self.tasks = collections.deque()
        self._closed = False
        self._terminated = False
        self._jobno = 0
        self.maxtasks = int(maxtasksperchild) if maxtasksperchild else None
        self._init = (initializer, initargs)
        self._spawned = 0
        self._vacancies = 0
        sim.counters["pools"] = sim.counters.get("pools", 0) + 1
        self.no = sim.counters["pools"]
        sim.pools.append(self)
        self.workers = []
        sim.emit("pool-create", (self.no, self.n))
        for k in range(self.n):
            self._fork_worker()
        if self.maxtasks:
            # multiprocess.Pool's worker-handler thread: replaces exited workers at a moment of
            # its own choosing (here: the scheduler's), forking from the parent as it is then
            sim.spawn("p%dh" % self.no, self._handler_loop)

    def _fork_worker(self):
        sim = self.sim
        k = self._spawned
        self._spawned += 1
        p = sim.spawn("p%dw%d" % (self.no, k), self._make_worker(k, *self._init))
        self.workers.append(p)
        if self.copy:
            # a forked worker keeps the module-level state of the library as it was at fork time
            if not getattr(sim, "_tracked", None):
                sim.track_globals(_mutable_module_globals())
            sim.fork_view(p, _copy_global)
        n = sim.flock.inherit(0, p.pid, lambda p=p: (not p.done) or False)
        if n:
            sim.count("fork-inherited-open-handles", n)
            sim.emit("fork-inherit", (p.name, n))
        return p

    def _handler_loop(self):
        sim = self.sim
        while True:
            sim.step(None, None, pred=lambda: self._vacancies > 0 or self._closed or self._terminated,
                     waitdesc="handler")
            if self._terminated or (self._closed and not self.tasks):
                return
            if self._vacancies > 0:
                # the real handler polls every 0.1 s: the replacement is forked after a delay that
                # is long compared with a task; the parent is then at an arbitrary point
                for _ in range(sim.sched.draw(80)):
                    sim.step(None, None)
                    if self._terminated:
                        return
                self._vacancies -= 1
                sim.step("pool-repopulate", self.no)
                self._fork_worker()
                sim.count("workers-recycled")
            elif self._closed:
                sim.step(None, None, pred=lambda: not self.tasks or self._terminated or self._vacancies > 0,
                         waitdesc="handler-drain")
                if not self.tasks or self._terminated:
                    return

    def _next_job(self):
        self._jobno += 1
        return self._jobno

    def _make_worker(self, k, initializer, initargs):
        def loop():
            sim = self.sim
            if initializer is not None:
                initializer(*initargs)
            done_tasks = 0
            while True:
                if self.maxtasks and done_tasks >= self.maxtasks:
                    self._vacancies += 1
                    sim.emit("worker-exit-maxtasks", k)
                    return
                sim.step(
                    None,
                    None,
                    pred=lambda: bool(self.tasks) or self._closed or self._terminated,
                    waitdesc="task",
                )
                if self._terminated or not self.tasks:
                    return
                job, i, fb, chunk = self.tasks.popleft()
                sim.step("task-start", (job.no, i))
                ok = True
                try:
                    func = self._ser.loads(fb) if self.copy else fb
                    res = []
                    for ab in chunk:
                        arg = self._ser.loads(ab) if self.copy else ab
                        hook = sim.hooks.get("task")
                        if hook is not None:
                            hook(job.no, i)  # F6: may raise
                        res.append(func(arg))
                    payload = self._ser.dumps(res) if self.copy else res
                except SimAbort:
                    raise
                except Exception as e:
                    ok = False
                    payload = _copy_exc(e) if self.copy else e
                    del e
                sim.step("task-end", (job.no, i, ok))
                job.deliver(i, ok, payload)
                sim.emit("deliver", (job.no, i))
                done_tasks += 1

        return loop

    # -- submission helpers
    def _check_running(self):
        if self._closed or self._terminated:
            raise ValueError("Pool not running")

    def _submit(self, kind, func, iterable, chunksize):
        self._check_running()
        items = list(iterable)
        fb = self._ser.dumps(func) if self.copy else func
        chunks = [items[k:k + chunksize] for k in range(0, len(items), chunksize)]
        job = _Job(self, kind, len(chunks))
        job.chunksize = chunksize
        for i, ch in enumerate(chunks):
            self.tasks.append((job, i, fb, [self._ser.dumps(x) if self.copy else x for x in ch]))
        self.sim.step("submit", (kind, job.no, len(chunks)))
        return job

    def map(self, func, iterable, chunksize=None):
        items = list(iterable)
        if chunksize is None:
            chunksize, extra = divmod(len(items), self.n * 4)
            if extra:
                chunksize += 1
        if len(items) == 0:
            chunksize = 0
            self._check_running()
            return []
        job = self._submit("map", func, items, chunksize)
        self.sim.step("map-wait", job.no, pred=lambda: job.left == 0, waitdesc="map")
        if job.first_failure is not None:
            raise job.first_failure
        out = []
        for i in range(job.n):
            out.extend(self._ser.loads(job.results[i][1]) if self.copy else job.results[i][1])
        self.sim.emit("map-done", job.no)
        return out

    def imap(self, func, iterable, chunksize=1):
        job = self._submit("imap", func, iterable, max(1, chunksize))
        return self._imap_iter(job, ordered=True)

    def imap_unordered(self, func, iterable, chunksize=1):
        job = self._submit("imap_unordered", func, iterable, max(1, chunksize))
        return self._imap_iter(job, ordered=False)

    def _imap_iter(self, job, ordered):
        sim = self.sim
        pos = 0
        submitted = 0
        while pos < job.n:
            if ordered:
                want = pos
                sim.step("imap-next", (job.no, pos), pred=lambda: want in job.results,
                         waitdesc="imap")
                i = pos
            else:
                sim.step("imap-next", (job.no, pos), pred=lambda: bool(job.order),
                         waitdesc="imap_unordered")
                i = job.order.popleft()
                if i != submitted:
                    sim.count("unordered-delivery")
                submitted += 1
            ok, payload = job.results.pop(i)
            sim.emit("result", (job.no, i, ok))
            pos += 1
            if not ok:
                raise payload
            yield from (self._ser.loads(payload) if self.copy else payload)

    def apply(self, func, args=(), kwds=None):
        kwds = kwds or {}
        return self.map(lambda a: func(*a[0], **a[1]), [(args, kwds)])[0]

    def starmap(self, func, iterable, chunksize=None):
        return self.map(lambda a: func(*a), iterable, chunksize)

    def close(self):
        if not self._closed:
            self._closed = True
            if kernel.SIM is self.sim and self.sim is not None:
                self.sim.step("pool-close", self.no)

    def terminate(self):
        self._terminated = True
        self._closed = True
        if kernel.SIM is self.sim and self.sim is not None:
            self.sim.step("pool-terminate", self.no)

    def join(self):
        if not self._closed:
            raise ValueError("Pool is still running")
        self.sim.step("pool-join", self.no, pred=lambda: all(w.done for w in self.workers),
                      waitdesc="join")

    def __enter__(self):
        return self

    def __exit__(self, *a):
        self.terminate()


def _mutable_module_globals():
    """(module, name) of every module-level mutable container in the library under test (caches,
    registries, memo tables - whatever the current tree has)."""
    out = []
    for mname, mod in sorted(sys.modules.items()):
        if mod is None or not (mname == "cooler" or mname.startswith("cooler.")):
            continue
        for name, val in sorted(vars(mod).items()):
            if name.startswith("__"):
                continue
            if isinstance(val, (dict, list, set, bytearray, collections.OrderedDict, collections.defaultdict,
                                collections.deque)):
                out.append((mod, name))
            elif isinstance(val, type) and (getattr(val, "__module__", "") or "").startswith("cooler"):
                # class-level containers (per-class caches and registries) are process state too
                for cname, cval in sorted(vars(val).items()):
                    if cname.startswith("__"):
                        continue
                    if isinstance(cval, (dict, list, set, bytearray, collections.deque)) and (val, cname) not in out:
                        out.append((val, cname))
    return out


def _copy_global(val):
    try:
        return dill.loads(dill.dumps(val))
    except Exception:
        import copy as _c
        return _c.copy(val)


def _pool_factory(*a, **kw):
    if kernel.SIM is None:
        return _real["Pool"](*a, **kw)
    return SimPool(*a, **kw)


# ---------------------------------------------------------------------- clock
class FixedDateTime(_dt.datetime):
    @classmethod
    def now(cls, tz=None):
        return _dt.datetime(2020, 2, 2, 2, 2, 2, 20202)


# ---------------------------------------------------------------------- knobs
RLE_BLOCK = [None]  # per-run replacement for index_pixels' hard-coded 1_000_000


def _rlencode_knob(array, chunksize=None):
    sim = kernel.SIM
    blk = RLE_BLOCK[0]
    if sim is not None and blk is not None and chunksize == 1000000:
        n = len(array)
        if n > blk:
            sim.count("rle-block-boundary-crossed")
        chunksize = blk
    return _real["rlencode"](array, chunksize)


# -------------------------------------------------------------------- install
def install():
    """Install all seams (idempotent)."""
    global _installed
    if _installed:
        return
    import cooler
    import cooler._reduce
    import cooler.cli.balance
    import cooler.cli.cload
    import cooler.cli.coarsen
    import cooler.cli.zoomify
    import cooler.create._create as cc
    import cooler.parallel

    assert os.path.realpath(cooler.__file__).startswith(REPO_ROOT + "/src/"), (cooler.__file__, REPO_ROOT)

    h5py.File.__init__ = _sim_file_init
    h5py.File.close = _sim_file_close
    h5py.File.flush = _sim_file_flush
    h5py.AttributeManager.create = _sim_attr_create

    real_lock = cooler.parallel.lock
    _real["lock"] = real_lock
    for mod in list(sys.modules.values()):
        if mod is None or not getattr(mod, "__name__", "").startswith("cooler"):
            continue
        for k, v in list(vars(mod).items()):
            if v is real_lock:
                setattr(mod, k, SIMLOCK)

    import multiprocess as mp

    _real["Pool"] = mp.Pool
    cooler._reduce.mp = types.SimpleNamespace(Pool=_pool_factory)
    cooler.cli.balance.Pool = _pool_factory
    cooler.cli.cload.Pool = _pool_factory

    cc.datetime = FixedDateTime
    _real["rlencode"] = cc.rlencode
    cc.rlencode = _rlencode_knob
    _installed = True


def new_sim(rng, policy, scratch, replay=None, param=None, max_steps=400000):
    sched = kernel.Scheduler(rng, policy, replay, param)
    sim = kernel.Sim(sched, max_steps)
    sim.namer = Namer(scratch)
    sim.flock = FlockTable()
    sim.flock_conflicts = []
    SIMLOCK.reset()
    return sim


# ------------------------------------------------------------------ interrupt
class SimInterrupt(BaseException):
    """Asynchronous interrupt injected at a traced line event (F3)."""


class LineTracer:
    """Counts `line` events in files under /repo/src/cooler/ on the calling
    thread; raises SimInterrupt at event number `target` (1-based) if given."""

    def __init__(self, target=None):
        self.count = 0
        self.target = target
        self.fired_at = None

    def _local(self, frame, event, arg):
        if event == "line":
            self.count += 1
            if self.target is not None and self.count == self.target:
                self.fired_at = (
                    os.path.basename(frame.f_code.co_filename),
                    frame.f_code.co_name,
                    frame.f_lineno,
                )
                self.target = None
                raise SimInterrupt(self.count)
        return self._local

    def _global(self, frame, event, arg):
        fn = frame.f_code.co_filename or ""
        if fn.startswith(REPO_SRC):
            return self._local
        return None

    def __enter__(self):
        self._prev = sys.gettrace()
        sys.settrace(self._global)
        return self

    def __exit__(self, *a):
        sys.settrace(self._prev)
        return False
