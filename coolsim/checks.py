"""Per-property check configurations: which engine, which workload generator,
which faults, how many runs per tier, what counts as non-trivial."""
from __future__ import annotations

import hashlib
import random
import time

from . import balance_engine  # noqa: F401  (registers op_balance)
from . import histories, kernel, seams
from .runner import derive_seed

RLE_BLOCKS = [1, 2, 3, 5, 8, 64, None]

COMPONENTS = {
    "real": ["cooler (current /repo/src working tree)", "h5py 3.16 / libhdf5 on a real scratch filesystem",
             "pandas / numpy", "dill (task and result copies)", "click CliRunner for CLI paths"],
    "stubbed": ["multiprocess.Pool -> SimPool (seeded baton-passing scheduler decides every interleaving)",
                "multiprocess.Lock (cooler.parallel.lock) -> SimLock",
                "HDF5 inter-process file locking -> flock model (reader/writer exclusion between simulated processes)",
                "datetime.now -> fixed instant", "index_pixels' 1e6-row block -> per-run knob",
                "garbage collector timing -> automatic GC off, collections at operation boundaries"],
}

PROPS = {
    "C15": dict(engine="store", gen="gen_c15", nops=(3, 10), runs={"quick": 640, "thorough": 9000},
                level="exploration", faults=True, batch=10),
    "C01": dict(engine="store", gen="gen_c01", nops=(2, 7), runs={"quick": 800, "thorough": 16000},
                level="exploration", faults=True, batch=10),
    "C11": dict(engine="store", gen="gen_c11", nops=(2, 4), runs={"quick": 256, "thorough": 4000},
                level="exploration", batch=4, timeout=600, continue_after_violation=True),
    "C13": dict(engine="store", special="c13", nops=(1, 1), runs={"quick": 64, "thorough": 80},
                level="fault_enumeration", batch=1, timeout=3000, max_placements={"quick": 140, "thorough": 1000},
                wall_cap={"quick": 1800, "thorough": 4 * 3600}),
    "C02": dict(engine="store", gen="gen_c02", nops=(3, 9), runs={"quick": 400, "thorough": 8000},
                level="exploration", faults=True, batch=8),
    "C06": dict(engine="store", gen="gen_c06", nops=(2, 6), runs={"quick": 480, "thorough": 5000},
                level="exploration", batch=8),
    "C07": dict(engine="store", gen="gen_c07", nops=(3, 9), runs={"quick": 480, "thorough": 9000},
                level="exploration", batch=8),
    "C08": dict(engine="store", gen="gen_c08", nops=(3, 8), runs={"quick": 400, "thorough": 8000},
                level="exploration", batch=6),
    "C09": dict(engine="store", gen="gen_c09", nops=(4, 7), runs={"quick": 320, "thorough": 12000},
                level="exploration", batch=6),
    "C17": dict(engine="store", gen="gen_c17", nops=(2, 6), runs={"quick": 480, "thorough": 7000},
                level="exploration", faults=True, batch=8),
    "C18": dict(engine="store", gen="gen_c18", nops=(4, 12), runs={"quick": 480, "thorough": 8000},
                level="exploration", batch=8, continue_after_violation=True),
}


def make_specs(prop, tier, base_seed, nruns):
    from . import directed as _directed

    cfg = PROPS[prop]
    specs = []
    directed = []
    if prop in _directed.DIRECTED:
        fn = _directed.DIRECTED[prop]
        directed = [{"ops": ops} for ops in (fn(tier) if fn.__code__.co_argcount else fn())]
    for i in range(nruns):
        spec = {"prop": prop, "tier": tier, "index": i, "run_seed": derive_seed(base_seed, prop, i),
                "mode": "gen", "engine": cfg["engine"], "timeout": max(1200, cfg.get("timeout", 1200))}
        if i < len(directed):
            spec["directed"] = directed[i]
        specs.append(spec)
    return specs


def draw_swarm(rng, prop, tier):
    cfg = PROPS[prop]
    lo, hi = cfg["nops"]
    if tier == "thorough":
        hi = int(hi * 1.6)
    return {
        "policy": rng.choice(kernel.POLICIES),
        "rle_block": rng.choice(RLE_BLOCKS),
        "nops": rng.randint(lo, hi),
        "snapshots": rng.random() < 0.8,
        "sched_seed": rng.getrandbits(48),
        "big": tier == "thorough" and rng.random() < 0.3,
    }


def execute(spec, scratch, t0):
    if spec["engine"] == "store":
        return execute_store(spec, scratch, t0)
    from . import pool_engine
    return pool_engine.execute(spec, scratch, t0)


def execute_store(spec, scratch, t0):
    from .model import Node
    from .store_engine import StoreRun

    prop = spec["prop"]
    cfg = dict(PROPS[prop])
    rng = random.Random(spec["run_seed"])
    replay = spec.get("mode") == "replay"
    swarm = spec["swarm"] if replay and spec.get("swarm") else draw_swarm(rng, prop, spec["tier"])
    if spec.get("directed") and not replay:
        swarm["snapshots"] = True
    Node._ids[0] = 0
    sim = seams.new_sim(random.Random(swarm["sched_seed"]), swarm["policy"], scratch,
                        replay=spec.get("schedule") if replay else None, param="p1w0")
    seams.RLE_BLOCK[0] = swarm["rle_block"]
    kernel.activate(sim)
    run = StoreRun(sim, scratch, snapshots=swarm["snapshots"])
    if swarm.get("big"):
        cfg.update(maxpx=400, maxbins=20, maxchroms=5)
    try:
        if replay:
            run.run(spec["ops"])
        elif spec.get("directed"):
            run.run(spec["directed"]["ops"], stop_on_violation=not cfg.get("continue_after_violation"))
            run.stat("directed-corner-workloads")
        elif cfg.get("special") == "c13":
            from . import c13
            c13.run(run, rng, cfg, spec["tier"])
        else:
            gen_next = getattr(histories, cfg["gen"])
            run.run_online(rng, gen_next, swarm["nops"], cfg,
                           stop_on_violation=not cfg.get("continue_after_violation"))
    finally:
        kernel.deactivate()
    viol = run.violations
    st = run.stats
    sig = hashlib.sha1(repr(run.trace).encode()).hexdigest()[:16]
    out = {
        "index": spec["index"], "run_seed": spec["run_seed"],
        "spec": {k: spec[k] for k in ("prop", "tier", "index", "run_seed", "engine", "timeout") if k in spec},
        "violations": viol, "digest": sim.digest(), "trace_sig": sim.trace_signature(), "sig": sig,
        "stats": st, "faults": run.faults_fired, "nops": len(run.ops), "steps": sim.steps,
        "events": len(sim.log), "counters": sim.counters, "wall": time.time() - t0,
        "nontrivial": nontrivial(prop, run), "states": sorted(set(run.trace)),
    }
    out["spec"]["swarm"] = swarm
    if viol or spec.get("keep_ops"):
        out["ops"] = run.ops
        out["schedule"] = list(sim.sched.choices)
    else:
        out["sample"] = abbreviate(run.ops)
    return out


def nontrivial(prop, run):
    st = run.stats
    if st.get("verified-nonempty", 0) == 0:
        return False
    if prop == "C15":
        return any(st.get("op:" + k, 0) for k in ("cp", "mv", "ln"))
    if prop == "C13":
        return sum(run.faults_fired.values()) > 0
    if prop == "C01":
        return st.get("op:create", 0) > 0
    if prop == "C06":
        return st.get("op:create", 0) + st.get("op:cliload", 0) + st.get("op:clipairs", 0) > 0
    if prop == "C02":
        return st.get("struct-checked", 0) > 0
    if prop == "C07":
        return st.get("op:merge", 0) > 0
    if prop == "C08":
        return st.get("op:coarsen", 0) > 0
    if prop == "C09":
        return st.get("op:zoomify", 0) > 0
    if prop == "C17":
        return st.get("op:scool", 0) > 0
    if prop == "C11":
        return st.get("balance-configs", 0) > 0 and st.get("balance-reference-finite", 0) > 0
    if prop == "C18":
        return st.get("op:rename", 0) > 0
    return True


def abbreviate(ops):
    out = []
    for op in ops:
        o = {"op": op["op"]}
        for k in ("file", "path", "mode", "form", "symmetric", "dtypes", "fault", "src", "dst", "soft",
                  "overwrite", "unordered", "factor", "chunksize", "nproc", "mergebuf", "what"):
            if k in op and op[k] is not None:
                o[k] = op[k]
        if "layout" in op:
            ed = op["layout"]["edges"]
            o["layout"] = {"names": op["layout"]["names"], "kind": op["layout"]["kind"],
                           "nbins": ed if isinstance(ed, str) else sum(len(e) - 1 for e in ed)}
        if "chunks" in op:
            o["chunk_sizes"] = [len(c["bin1_id"]) for c in op["chunks"]]
        out.append(o)
    return out


def evidence(prop, tier, seed, summaries, wall, nviol, others, known_hits, harness_errors):
    cfg = PROPS[prop]
    faults = {}
    stats = {}
    counters = {}
    sigs = set()
    states = set()
    traces = set()
    nops = steps = events = 0
    for s in summaries:
        for k, v in s.get("faults", {}).items():
            faults[k] = faults.get(k, 0) + v
        for k, v in s.get("stats", {}).items():
            stats[k] = stats.get(k, 0) + v
        for k, v in s.get("counters", {}).items():
            counters[k] = counters.get(k, 0) + v
        if s.get("nontrivial"):
            sigs.add(s["sig"])
        states.update(s.get("states", []))
        traces.add(s.get("trace_sig"))
        nops += s.get("nops", 0)
        steps += s.get("steps", 0)
        events += s.get("events", 0)
    samples = [s["sample"] for s in summaries[:400] if s.get("sample") and s.get("nontrivial")][:3]
    if not samples:
        samples = [s.get("sample") or s.get("ops") for s in summaries[:3]]
    n = len(summaries)
    evaluations, distinct = n, len(sigs)
    rule = cfg.get("rule", RULE_STORE)
    if prop == "C13":
        evaluations = stats.get("placements", 0) + stats.get("workloads", 0)
        distinct = len(states)
        rule = RULE_C13
    return {
        "property_id": prop,
        "tier": tier,
        "seed": seed,
        "level": cfg["level"],
        "coverage": {
            "evaluations": evaluations,
            "distinct_nontrivial": distinct,
            "rule": rule,
            "simulated_runs": n,
            "samples": samples,
            "operations_executed": nops,
            "scheduler_steps": steps,
            "events_logged": events,
            "distinct_abstract_states": len(states),
            "distinct_event_traces": len(traces),
            "faults_fired": faults,
            "probes_and_stats": stats,
            "sim_counters": counters,
            "runs_per_hour": round(n / wall * 3600) if wall > 0 else None,
            "simulated_time": "none: cooler has no timers or deadlines; progress is measured in scheduler steps",
            "components": COMPONENTS,
            "other_property_observations": {"%s/%s" % k: v for k, v in others.items()},
            "known_findings_reproduced": sorted(known_hits),
            "harness_errors": len(harness_errors),
            "exhaustive": False,
        },
        "assumptions": cfg.get("assumptions", ASSUMPTIONS),
        "wall_s": round(wall, 2),
        "violations": nviol,
    }


RULE_STORE = (
    "Each evaluation is one seeded simulated history (3-16 explicit operations generated online against "
    "the reference model, with fault placements) executed on real cooler/h5py under the simulator; after "
    "every operation all files are re-read from disk and compared with the model. A run is non-trivial "
    "when the property's own operation kind executed (not skipped), at least one non-empty collection "
    "was read back and compared, and (for fault properties) at least one injected fault actually fired. "
    "distinct_nontrivial counts distinct run signatures = hash of the per-operation sequence of "
    "(operation kind, fault kind, abstract model state) among non-trivial runs."
)

RULE_C13 = (
    "Each simulated run is one workload: a file populated with 0-3 neighbour collections, links and planted "
    "content, plus one producing operation (ordered/unordered create, merge, coarsen with or without simulated "
    "workers, scool) aimed at a new file, a new group, an existing non-cooler object, the root, or an existing "
    "cooler. Within the workload the fault placements are ENUMERATED: every F1 (kind x chunk x first/mid/last), "
    "every F2 index, every F4 open index, every F6 task index (capped per workload; the cap is reported in "
    "probes_and_stats as placements), F3 interrupts at stratified traced line events (all of them in the thorough "
    "tier when the workload has <= 1500), and an F5 process-kill snapshot at every close of a write handle of "
    "every execution. evaluations = faulted executions + fault-free passes. distinct_nontrivial is counted "
    "conservatively as the number of distinct (operation kind, fault kind, abstract model state) signatures "
    "reached, not the number of placements."
)

ASSUMPTIONS = [
    "libhdf5/h5py behave as on this sandbox (HDF5 2.0.0, h5py 3.16); byte-level storage faults below libhdf5 are not modelled",
    "process kill is modelled at cooler's own durable boundaries (every close of a write handle), power loss is not",
    "sampling, not enumeration: a clean batch is evidence, not proof",
]
