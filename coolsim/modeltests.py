"""Model-fidelity self-tests: the two stubs that stand in for inter-process
behaviour are compared with the real thing.

1. flock model vs two real OS processes for the mode table (r, r+, a, w).
2. SimPool delivery/exception semantics vs a real multiprocess.Pool.
"""
from __future__ import annotations

import os
import random
import shutil
import sys
import tempfile

import h5py


def _try_open(path, mode, q):
    try:
        f = h5py.File(path, mode)
        f.close()
        q.put("ok")
    except BlockingIOError:
        q.put("BlockingIOError")
    except OSError as e:
        q.put("OSError:" + str(e)[:60])


def _holder(path, mode, ready, release):
    f = h5py.File(path, mode)
    ready.set()
    release.wait(60)
    f.close()


def flock_table():
    """Both the holder and the opener are children forked while this process
    has no HDF5 file open, so the outcome is HDF5's inter-process rule."""
    import multiprocessing as mp

    from . import seams

    d = tempfile.mkdtemp(dir="/dev/shm" if os.path.isdir("/dev/shm") else None)
    ctx = mp.get_context("fork")
    bad = 0
    try:
        path = os.path.join(d, "t.h5")
        for held in ("r", "r+", "a"):
            for want in ("r", "r+", "a"):
                with h5py.File(path, "w") as f:
                    f["x"] = 1
                ready, release = ctx.Event(), ctx.Event()
                hp = ctx.Process(target=_holder, args=(path, held, ready, release))
                hp.start()
                ready.wait(30)
                q = ctx.Queue()
                p = ctx.Process(target=_try_open, args=(path, want, q))
                p.start()
                real = q.get(timeout=30)
                p.join()
                release.set()
                hp.join()
                t = seams.FlockTable()

                class F:  # stand-in holder with a valid id
                    class id:
                        valid = True
                holder = F()
                t.register(1, path, held in seams.WRITE_MODES, holder)
                model = "BlockingIOError" if t.conflict(2, path, want in seams.WRITE_MODES) else "ok"
                ok = real == model
                bad += 0 if ok else 1
                print("held %-2s other process opens %-2s: real=%s model=%s %s" % (held, want, real, model, "" if ok else "MISMATCH"))
    finally:
        shutil.rmtree(d)
    return bad


def _sq(x):
    if x == 3:
        raise ValueError("three")
    return x * x


def _ident(x):
    return x


def pool_semantics():
    import multiprocess as mp

    from . import kernel, seams

    bad = 0
    d = tempfile.mkdtemp()
    try:
        for items in ([0, 1, 2, 4, 5], [0, 1, 2, 3, 4, 5], []):
            real = {}
            with mp.Pool(3) as rp:
                for name in ("map", "imap", "imap_unordered"):
                    try:
                        r = list(getattr(rp, name)(_sq, items))
                        real[name] = ("ok", sorted(r) if name == "imap_unordered" else r)
                    except ValueError as e:
                        real[name] = ("raised", str(e))
            simr = {}
            for name in ("map", "imap", "imap_unordered"):
                sim = seams.new_sim(random.Random(5), "uniform", d)
                kernel.activate(sim)
                try:
                    sp = seams.SimPool(3)
                    try:
                        r = list(getattr(sp, name)(_sq, items))
                        simr[name] = ("ok", sorted(r) if name == "imap_unordered" else r)
                    except ValueError as e:
                        simr[name] = ("raised", str(e))
                    sp.close()
                    sim.drain()
                finally:
                    kernel.deactivate()
            for name in real:
                ok = real[name] == simr[name]
                bad += 0 if ok else 1
                print("Pool.%s(%r): real=%r sim=%r %s" % (name, items, real[name], simr[name], "" if ok else "MISMATCH"))
        # results are copies (process isolation)
        sim = seams.new_sim(random.Random(5), "uniform", d)
        kernel.activate(sim)
        try:
            sp = seams.SimPool(2)
            obj = [1, 2]
            out = sp.map(_ident, [obj])[0]
            ok = out == obj and out is not obj
            print("results are copies: %s" % ok)
            bad += 0 if ok else 1
            sp.close()
            sim.drain()
        finally:
            kernel.deactivate()
    finally:
        shutil.rmtree(d)
    return bad


def _peek_registry(_x):
    # what a worker sees of a module-level container of the library
    import cooler._logging as cl
    return sorted(k for k in cl._loggers if str(k).startswith("coolsim-modeltest"))


def _poke_registry(tag):
    # a worker's own addition to the container
    import cooler._logging as cl
    cl._loggers["coolsim-modeltest-" + tag] = None
    return True


def fork_state():
    """A forked worker holds the library's module-level containers as they were at fork time and
    its own changes stay its own: the simulator's per-process views against a real fork()ed pool."""
    import cooler._logging as cl
    import multiprocess as mp

    from . import kernel, seams

    bad = 0
    d = tempfile.mkdtemp()

    def scenario(pool):
        out = {}
        cl._loggers["coolsim-modeltest-before"] = None         # set before ... no: pools exist already
        out["parent-change-after-fork seen by worker"] = pool.map(_peek_registry, [0])[0]
        pool.map(_poke_registry, ["w"])
        out["worker-change seen by parent"] = sorted(k for k in cl._loggers if str(k).startswith("coolsim-modeltest"))
        return out

    def clean():
        for k in [k for k in cl._loggers if str(k).startswith("coolsim-modeltest")]:
            del cl._loggers[k]

    try:
        clean()
        cl._loggers["coolsim-modeltest-atfork"] = None
        with mp.Pool(1) as rp:
            real = scenario(rp)
        clean()
        cl._loggers["coolsim-modeltest-atfork"] = None
        sim = seams.new_sim(random.Random(5), "uniform", d)
        kernel.activate(sim)
        try:
            sp = seams.SimPool(1)
            simr = scenario(sp)
            sp.close()
            sim.drain()
        finally:
            kernel.deactivate()
        clean()
        for k in real:
            ok = real[k] == simr[k]
            bad += 0 if ok else 1
            print("fork state, %s: real=%r sim=%r %s" % (k, real[k], simr[k], "" if ok else "MISMATCH"))
    finally:
        shutil.rmtree(d)
    return bad


if __name__ == "__main__":
    b = flock_table() + pool_semantics() + fork_state()
    print("model tests:", "OK" if b == 0 else "%d MISMATCHES" % b)
    sys.exit(1 if b else 0)
