"""C11: balancing depends on the data only, not on chunking or scheduling.

`op_balance` (a store-engine operation, so histories, replay and shrinking
are shared) runs the real `balance_cooler` / `cooler balance` once unchunked
and sequentially (the reference) and then under a list of configurations:
chunk size x map implementation (builtin, eager, SimPool.map / imap /
imap_unordered) x worker count x scheduler policy x use_lock, each with the
seeded scheduler deciding the completion order.  It also checks visit-once of
the split-apply-combine pipeline and agreement with a dense reference."""
from __future__ import annotations

import logging
import os
import warnings

import numpy as np

from . import kernel, seams
from .model import Coll
from .store_engine import Skip, StoreRun, uri_of

RTOL = 1e-9


class _Tap(logging.Handler):
    def __init__(self):
        super().__init__(level=logging.INFO)
        self.vars = []

    def emit(self, record):
        msg = record.getMessage()
        if msg.startswith("variance is "):
            try:
                self.vars.append(float(msg[len("variance is "):]))
            except ValueError:
                pass


def _eager_map(f, it):
    return list(map(f, it))


def dense_reference(coll, opts):
    """The documented iterative correction evaluated on the dense matrix.
    Returns (bias, scale, var, converged).  The marginal of the symmetric
    matrix counts an off-diagonal entry in both its row and its column and a
    diagonal entry ONCE (plain row sums)."""
    A = coll.dense("count").astype(float)
    n = A.shape[0]
    chrom = coll.bins["chrom"].values
    offs = [int(np.flatnonzero(chrom == c)[0]) for c in range(len(coll.chromnames))] + [n]
    cis_only, trans_only = opts.get("cis_only", False), opts.get("trans_only", False)
    k = opts.get("ignore_diags", 2)
    ii, jj = np.indices((n, n))
    if cis_only:
        A = np.where(chrom[ii] == chrom[jj], A, 0.0)
    if k:
        A = np.where(np.abs(ii - jj) < k, 0.0, A)
    bias = np.ones(n) if opts.get("x0") is None else np.array(opts["x0"], dtype=float)
    bias[np.isnan(bias)] = 0
    min_nnz, min_count, mad_max = opts.get("min_nnz", 10), opts.get("min_count", 0), opts.get("mad_max", 5)
    if min_nnz > 0:
        bias[(A != 0).sum(axis=1) < min_nnz] = 0
    marg = A.sum(axis=1)
    if min_count:
        bias[marg < min_count] = 0
    if mad_max > 0:
        with warnings.catch_warnings(), np.errstate(all="ignore"):
            warnings.simplefilter("ignore")
            m = marg.copy()
            for lo, hi in zip(offs[:-1], offs[1:]):
                c = m[lo:hi]
                m[lo:hi] = c / np.median(c[c > 0])
            lg = np.log(m[m > 0])
            med = np.median(lg)
            dev = np.median(np.abs(lg - med))
            cutoff = np.exp(med - mad_max * dev)
            bias[m < cutoff] = 0
    if opts.get("blacklist"):
        bias[list(opts["blacklist"])] = 0
    tol, max_iters, rescale = opts.get("tol", 1e-5), opts.get("max_iters", 200), opts.get("rescale", True)

    def sweep(A, bias, lo, hi):
        """IC sweeps on rows lo:hi; returns scale, var."""
        scale, var = 1.0, np.nan
        nz = np.array([])
        for _ in range(max_iters):
            M = (A * bias[None, :] * bias[:, None]).sum(axis=1)[lo:hi]
            nz = M[M != 0]
            if not len(nz):
                bias[lo:hi] = np.nan
                return np.nan, 0.0
            m = M / nz.mean()
            m[m == 0] = 1
            bias[lo:hi] /= m
            var = nz.var()
            if var < tol:
                break
        scale = nz.mean()
        b = bias[lo:hi]
        b[b == 0] = np.nan
        if rescale:
            bias[lo:hi] /= np.sqrt(scale)
        return scale, var

    with warnings.catch_warnings(), np.errstate(all="ignore"):
        warnings.simplefilter("ignore")
        if cis_only:
            scales, vars_ = [], []
            for lo, hi in zip(offs[:-1], offs[1:]):
                # NaN weights of earlier chromosomes do not enter: cis data only
                Ac = np.zeros_like(A)
                Ac[lo:hi, lo:hi] = A[lo:hi, lo:hi]
                bb = np.where(np.isnan(bias), 0.0, bias)
                s, v = sweep(Ac, bb, lo, hi)
                bias[lo:hi] = bb[lo:hi]
                scales.append(s)
                vars_.append(v)
            return bias, np.array(scales), np.array(vars_)
        if trans_only:
            At = np.where(chrom[ii] == chrom[jj], 0.0, A)
            cw = np.concatenate([[1.0 / (1 - (hi - lo) / n)] * (hi - lo) for lo, hi in zip(offs[:-1], offs[1:])])
            scale, var = 1.0, np.nan
            nz = np.array([])
            for _ in range(max_iters):
                w = bias * cw
                M = (At * w[None, :] * w[:, None]).sum(axis=1)
                nz = M[M != 0]
                if not len(nz):
                    bias[:] = np.nan
                    return bias, np.nan, 0.0
                m = M / nz.mean()
                m[m == 0] = 1
                bias /= m
                var = nz.var()
                if var < tol:
                    break
            scale = nz.mean()
            bias[bias == 0] = np.nan
            if rescale:
                bias /= np.sqrt(scale)
            return bias, scale, var
        s, v = sweep(A, bias, 0, n)
        return bias, s, v


def _close(a, b, rtol=RTOL):
    a = np.asarray(a, dtype=float)
    b = np.asarray(b, dtype=float)
    if a.shape != b.shape:
        return False
    na, nb = np.isnan(a), np.isnan(b)
    if not np.array_equal(na, nb):
        return False
    return bool(np.allclose(a[~na], b[~nb], rtol=rtol, atol=1e-300))


def _var_noise(var, scale):
    """How far the reported variance may move under another floating-point summation order.  `var`
    is the variance of marginals of magnitude `scale`; every marginal carries a rounding error of a
    few units in the last place of `scale` (64 ulp allowed here), so var moves by at most
    2*sqrt(var)*d + d*d with d = 64 * scale * 2**-52.  Negligible (1e-15) for ordinary counts; it
    matters for counts of 1e7 and more, where a tolerance of 1e-5 on the variance asks the marginals
    to agree to eleven digits (false alarm met in the thorough tier, DESIGN 7.4)."""
    with np.errstate(all="ignore"):
        var = np.nan_to_num(np.abs(np.asarray(var, dtype=float)))
        d = 64.0 * np.nan_to_num(np.abs(np.asarray(scale, dtype=float))) * 2.0 ** -52
        return np.nan_to_num(2.0 * np.sqrt(var) * d + d * d)


def _nf(x):
    """Overflowed quantities: an iteration that diverges beyond the floating-point range ends in inf
    in one evaluation order and in nan in another (inf - inf, inf * 0); both mean "not a number any
    more" and compare as equal (false alarm met in the thorough tier: a cis-only run on counts of
    2e7 whose per-chromosome scale reached 1e245, DESIGN 7.4)."""
    x = np.array(x, dtype=float, copy=True)
    x[~np.isfinite(x)] = np.nan
    return x


def _var_close(a, b, scale, rtol=1e-6):
    a = _nf(a)
    b = _nf(b)
    if a.shape != b.shape or not np.array_equal(np.isnan(a), np.isnan(b)):
        return False
    a0, b0 = np.nan_to_num(a), np.nan_to_num(b)
    with np.errstate(all="ignore"):
        return bool(np.all(np.abs(a0 - b0) <= rtol * np.abs(b0) + 1e-18 + _var_noise(b0, scale)))


def _kw(opts):
    kw = dict(cis_only=opts.get("cis_only", False), trans_only=opts.get("trans_only", False),
              ignore_diags=opts.get("ignore_diags", 2), mad_max=opts.get("mad_max", 5),
              min_nnz=opts.get("min_nnz", 10), min_count=opts.get("min_count", 0),
              rescale_marginals=opts.get("rescale", True), tol=opts.get("tol", 1e-5),
              max_iters=opts.get("max_iters", 200))
    if opts.get("blacklist"):
        kw["blacklist"] = np.array(opts["blacklist"], dtype=int)
    if opts.get("x0") is not None:
        kw["x0"] = np.array(opts["x0"], dtype=float)
    return kw


def _op_balance(self, op):
    import cooler
    from cooler import balance_cooler
    from cooler.parallel import split

    fid, path = op["file"], op["path"]
    if fid not in self.fs.files:
        raise Skip("no file")
    node = self.fs.lookup(fid, path)
    if node is None or not isinstance(node.coll, Coll) or not node.coll.symmetric:
        raise Skip("no symmetric collection")
    coll = node.coll
    if "count" not in coll.pixels.columns:
        raise Skip("no count column")
    sim = self.sim
    uri = uri_of(path, self.fpath(fid))
    opts = op["options"]
    nnz = len(coll.pixels)
    log = logging.getLogger("cooler._balance")
    old_level = log.level
    log.setLevel(logging.INFO)
    old_prop = log.propagate
    log.propagate = False

    def run_one(cfg, replay_choices=None):
        """-> (bias, stats, variances, choices made)"""
        tap = _Tap()
        log.addHandler(tap)
        pool = None
        c0 = len(sim.sched.choices)
        saved_policy = (sim.sched.policy, sim.sched.param)
        if replay_choices is not None:
            sim.sched.nested = list(replay_choices)
        else:
            sim.sched.nested_record = []
        try:
            sim.sched.policy = cfg.get("policy", "uniform")
            sim.sched.param = cfg.get("starve", "p1w0")
            clr = cooler.Cooler(uri)
            m = cfg["map"]
            if m == "builtin":
                mapf = map
            elif m == "eager":
                mapf = _eager_map
            else:
                pool = seams.SimPool(cfg.get("nproc", 2), copy=not m.startswith("thread"),
                                     serializer="pickle" if m.startswith("stdlib") else "dill")
                sim.sched.param = "p%dw0" % pool.no
                mapf = {"map": pool.map, "imap": pool.imap, "imap_unordered": pool.imap_unordered}[m.split(".")[1]]
            if cfg.get("fail_open") is not None:
                # F4 inside a balancing run: the j-th open of the file (by the driver or by a worker)
                # fails once - the run may fail, it must never return other weights
                from .store_engine import InjectedIOError
                cnt = [0]
                tgt = int(cfg["fail_open"])

                def hook(norm, mode):
                    k = cnt[0]
                    cnt[0] += 1
                    if k == tgt:
                        self.fired("F4")
                        raise InjectedIOError(5, "injected: cannot open %s (%s)" % (norm, mode))

                sim.hooks["open"] = hook
            with warnings.catch_warnings(), np.errstate(all="ignore"):
                warnings.simplefilter("ignore")
                if m == "cli":
                    raise AssertionError
                bias, stats = balance_cooler(clr, chunksize=cfg["chunksize"], map=mapf,
                                             use_lock=cfg.get("use_lock", False), **_kw(opts))
            return bias, stats, list(tap.vars), list(sim.sched.nested_record or [])
        finally:
            sim.hooks.pop("open", None)
            log.removeHandler(tap)
            if pool is not None:
                try:
                    pool.close()
                except Exception:
                    pass
            try:
                sim.drain()
            except Exception:
                pass
            seams.SIMLOCK.reset()
            sim.sched.nested = None
            rec = sim.sched.nested_record
            sim.sched.policy, sim.sched.param = saved_policy

    def run_cli(cfg):
        from click.testing import CliRunner
        from cooler.cli import cli

        args = ["balance", "-p", str(cfg.get("nproc", 2)), "-c", str(cfg["chunksize"]),
                "--ignore-diags", str(int(opts.get("ignore_diags", 2) or 0)), "--mad-max", str(opts.get("mad_max", 5)),
                "--min-nnz", str(opts.get("min_nnz", 10)), "--min-count", str(opts.get("min_count", 0)),
                "--tol", repr(opts.get("tol", 1e-5)), "--max-iters", str(opts.get("max_iters", 200)),
                "--convergence-policy", "store_final", "--force", "--name", "w_cli"]
        if opts.get("cis_only"):
            args.append("--cis-only")
        if opts.get("trans_only"):
            args.append("--trans-only")
        bedpath = None
        if opts.get("blacklist"):
            # the blacklist as the command line takes it: a BED file naming each bad bin's interval
            bt = coll.bins
            bedpath = os.path.join(self.S, "blacklist_%d.bed" % self.__dict__.setdefault("_nbed", 0))
            self._nbed += 1
            with open(bedpath, "w") as fh:
                # a one-line file without a header is taken for a header by csv.Sniffer (the CLI then
                # fails in np.concatenate([])): text parsing, outside C11 - see DESIGN 7.3
                if cfg.get("bed_header") or len(opts["blacklist"]) < 2:
                    fh.write("chrom\tstart\tend\n")
                for b in opts["blacklist"]:
                    fh.write("%s\t%d\t%d\n" % (coll.chromnames[int(bt["chrom"].iloc[b])], int(bt["start"].iloc[b]), int(bt["end"].iloc[b])))
            args += ["--blacklist", bedpath]
            self.stat("balance-cli-blacklist")
        args.append(uri)
        tap = _Tap()
        log.addHandler(tap)
        saved_policy = (sim.sched.policy, sim.sched.param)
        sim.sched.policy = cfg.get("policy", "uniform")
        try:
            with warnings.catch_warnings(), np.errstate(all="ignore"):
                warnings.simplefilter("ignore")
                r = CliRunner().invoke(cli, args, catch_exceptions=False)
            if r.exit_code != 0:
                raise RuntimeError("cli exit %s: %s" % (r.exit_code, (r.output or "")[-200:]))
            clr = cooler.Cooler(uri)
            w = clr.bins()["w_cli"][:].values
            attrs = clr._load_attrs("bins/w_cli")
            return w, attrs, list(tap.vars), []
        finally:
            log.removeHandler(tap)
            try:
                sim.drain()
            except Exception:
                pass
            sim.sched.policy, sim.sched.param = saved_policy
            # drop the stored column again: the model does not track it
            import h5py
            with h5py.File(self.fpath(fid), "r+") as f:
                g = f[path]["bins"]
                if "w_cli" in g:
                    del g["w_cli"]

    errs = []
    try:
        try:
            ref_bias, ref_stats, ref_vars, _ = run_one({"map": "builtin", "chunksize": None})
        except Exception as e:
            self.stat("balance-reference-raised:" + type(e).__name__)
            return (type(e).__name__, str(e)[:200]), None
        self.stat("balance-reference-runs")
        ref_mask = np.isnan(ref_bias)
        if (~ref_mask).any():
            self.stat("balance-reference-finite")
        # An iteration that DIVERGES beyond the floating-point range (per-chromosome scale 1e127 ..
        # 1e245, variance 1e255 / inf: a cis-only run on counts of 2e7 over a two-bin chromosome)
        # amplifies every rounding difference without bound, so "the same up to floating-point
        # summation order" says nothing there: such operations are counted and not compared
        # (false alarm met in the thorough tier, DESIGN 7.4). Pools, schedules and deadlock/flock
        # checks still run.
        with np.errstate(all="ignore"):
            _sc = np.abs(np.asarray(ref_stats["scale"], dtype=float))
            _vr = np.abs(np.asarray(ref_stats["var"], dtype=float))
            diverged = bool(np.any(np.isinf(_sc) | (_sc > 1e100)) or np.any(np.isinf(_vr) | (_vr > 1e150)))
        if diverged:
            self.stat("balance-diverged-not-compared")
        # ---- second clause: the dense reference
        if not opts.get("skip_dense") and not diverged:
            try:
                d_bias, d_scale, d_var = dense_reference(coll, dict(opts))
                ok = _close(ref_bias, d_bias) and _close(_nf(ref_stats["scale"]), _nf(d_scale)) and \
                    (_close(ref_stats["var"], d_var, 1e-6) or _var_close(ref_stats["var"], d_var, ref_stats["scale"]) or
                     np.allclose(np.nan_to_num(np.asarray(ref_stats["var"], dtype=float)),
                                 np.nan_to_num(np.asarray(d_var, dtype=float)), rtol=1e-6, atol=1e-18))
                if not ok:
                    has_diag = bool((coll.pixels["bin1_id"].values == coll.pixels["bin2_id"].values).any())
                    tagd = " [ignore_diags=0 with a non-zero main diagonal]" if (not opts.get("ignore_diags") and has_diag) else ""
                    nd = int(np.nanargmax(np.abs(np.nan_to_num(ref_bias) - np.nan_to_num(d_bias)))) if len(ref_bias) else -1
                    errs.append(("O-dense", "weights differ from iterative correction on the dense matrix%s: "
                                 "bin %d got %r want %r; scale %r vs %r; var %r vs %r" % (
                                     tagd, nd, float(ref_bias[nd]) if nd >= 0 else None,
                                     float(d_bias[nd]) if nd >= 0 else None, ref_stats["scale"], d_scale,
                                     ref_stats["var"], d_var)))
                else:
                    self.stat("dense-reference-agrees")
            except Exception as e:
                errs.append(("O-dense-raised", "dense reference raised %s: %s" % (type(e).__name__, e)))
        # ---- configurations
        for ci, cfg in enumerate(op["configs"]):
            label = "config#%d %s: " % (ci, {k: v for k, v in cfg.items()})
            try:
                if cfg["map"] == "cli":
                    bias, stats, vars_, choices = run_cli(cfg)
                    if opts.get("x0") is not None or not opts.get("rescale", True):
                        continue
                else:
                    bias, stats, vars_, choices = run_one(cfg)
            except (kernel.SimDeadlock, kernel.StepLimit) as e:
                errs.append(("O-sched-deadlock", label + "%s" % e))
                sim.deadlock = None
                continue
            except Exception as e:
                if cfg.get("fail_open") is not None:
                    self.stat("balance-faulted-run-failed")     # a legitimate outcome under a fault
                    continue
                errs.append(("O-config-raised", label + "raised %s: %s" % (type(e).__name__, str(e)[:160])))
                continue
            if cfg.get("fail_open") is not None:
                self.stat("balance-faulted-run-completed")
            self.stat("balance-configs")
            self.stat("balance-map:" + cfg["map"])
            if diverged:
                continue
            if len(vars_) != len(ref_vars):
                # different iteration count: legitimate only on a knife edge var ~ tol
                kdiv = min(len(vars_), len(ref_vars)) - 1
                tol = opts.get("tol", 1e-5)
                a = vars_[kdiv] if kdiv >= 0 else np.nan
                b = ref_vars[kdiv] if kdiv >= 0 else np.nan
                edge = 1e-9 * tol + float(np.max(_var_noise(tol, ref_stats["scale"])))
                if kdiv >= 0 and abs(a - tol) <= edge and abs(b - tol) <= edge:
                    self.stat("knife-edge-skipped")
                    continue
                errs.append(("O-iterations", label + "stopped after %d sweeps, the unchunked sequential run after %d "
                             "(variance %r vs %r, tol %r)" % (len(vars_), len(ref_vars), a, b, tol)))
                continue
            if not np.array_equal(np.isnan(bias), ref_mask):
                errs.append(("O-mask", label + "NaN mask differs from the unchunked sequential run: bins %s" % (
                    np.flatnonzero(np.isnan(bias) != ref_mask)[:8].tolist(),)))
                continue
            if not _close(bias, ref_bias):
                k = int(np.nanargmax(np.abs(np.nan_to_num(bias) - np.nan_to_num(ref_bias))))
                errs.append(("O-weights", label + "weights differ beyond summation order: bin %d %r vs %r" % (
                    k, float(bias[k]), float(ref_bias[k]))))
                continue
            for key in ("scale", "var"):
                a = _nf(stats[key])
                b = _nf(ref_stats[key])
                if key == "var" and _var_close(a, b, ref_stats["scale"]):
                    continue
                if not (_close(a, b, 1e-6) or np.allclose(np.nan_to_num(a), np.nan_to_num(b), rtol=1e-6, atol=1e-18)):
                    errs.append(("O-stats", label + "%s %r vs %r (scale %r)" % (key, stats[key], ref_stats[key],
                                                                                   ref_stats["scale"])))
            if not np.array_equal(np.asarray(stats["converged"]), np.asarray(ref_stats["converged"])):
                errs.append(("O-stats", label + "converged %r vs %r" % (stats["converged"], ref_stats["converged"])))
            # ---- repeated run, same configuration and same schedule: bitwise identical
            if cfg.get("repeat") and cfg["map"] != "cli":
                try:
                    bias2, stats2, vars2, _ = run_one(cfg, replay_choices=choices)
                    # "the same - up to floating-point summation order - ... for repeated runs": NumPy's
                    # reductions may round differently from call to call (SIMD paths chosen by the
                    # alignment of freshly allocated buffers), so bitwise identity is more than the
                    # property states (false alarm met in the thorough tier with counts ~2e7, where the
                    # iteration runs at the rounding floor; DESIGN 7.4). Identical is counted as a probe.
                    if np.array_equal(bias, bias2, equal_nan=True) and vars2 == vars_:
                        self.stat("repeat-bitwise-identical")
                    same = (np.array_equal(np.isnan(bias), np.isnan(bias2)) and _close(bias, bias2) and
                            len(vars2) == len(vars_) and
                            _var_close(stats2["var"], stats["var"], stats["scale"]) and _close(stats2["scale"], stats["scale"], 1e-6))
                    if not same:
                        nb_ = int(np.sum(~(np.isclose(bias, bias2, rtol=0, atol=0, equal_nan=True))))
                        errs.append(("O-repeat", label + "a repeated run with the same schedule is not bitwise identical"
                                     " (%d weights differ, max rel %.3g; sweeps %d vs %d, first differing variance #%s)" % (
                                         nb_, float(np.nanmax(np.abs(np.nan_to_num(bias / bias2) - 1))) if nb_ else 0.0,
                                         len(vars_), len(vars2),
                                         next((k_ for k_, (x_, y_) in enumerate(zip(vars_, vars2)) if x_ != y_), None))))
                    else:
                        self.stat("repeat-identical")
                except Exception as e:
                    errs.append(("O-repeat", label + "repeat raised %s" % e))
        # ---- visit-once through the real split()
        for vc in op.get("visit", []):
            label = "visit %r: " % (vc,)
            pool = None
            try:
                clr = cooler.Cooler(uri)
                if vc["map"] == "builtin":
                    mapf = map
                elif vc["map"] == "eager":
                    mapf = _eager_map
                else:
                    pool = seams.SimPool(vc.get("nproc", 2), copy=not vc["map"].startswith("thread"))
                    mapf = {"map": pool.map, "imap": pool.imap,
                            "imap_unordered": pool.imap_unordered}[vc["map"].split(".")[1]]
                saved_policy = sim.sched.policy
                sim.sched.policy = vc.get("policy", "uniform")
                try:
                    got = split(clr, map=mapf, chunksize=vc["chunksize"]).pipe(_ids_of).gather()
                finally:
                    sim.sched.policy = saved_policy
                pairs = sorted(p for chunk in got for p in chunk)
                want = sorted(zip(coll.pixels["bin1_id"].tolist(), coll.pixels["bin2_id"].tolist()))
                if pairs != want:
                    errs.append(("O-visit-once", label + "pixels visited %d, stored %d, multiset differs" % (
                        len(pairs), len(want))))
                else:
                    self.stat("visit-once-verified")
            except (kernel.SimDeadlock, kernel.StepLimit) as e:
                errs.append(("O-sched-deadlock", label + "%s" % e))
                sim.deadlock = None
            except Exception as e:
                errs.append(("O-visit-raised", label + "raised %s: %s" % (type(e).__name__, str(e)[:160])))
            finally:
                if pool is not None:
                    pool.close()
                try:
                    sim.drain()
                except Exception:
                    pass
                seams.SIMLOCK.reset()
    finally:
        log.setLevel(old_level)
        log.propagate = old_prop
    for oracle, detail in errs:
        self.violate("C11", oracle, [detail])
    return None, None


def _ids_of(chunk):
    px = chunk["pixels"]
    return list(zip(px["bin1_id"].tolist(), px["bin2_id"].tolist()))


StoreRun.op_balance = _op_balance
