"""Seeded workload generation (swarm style).  Every function draws only from
the `random.Random` it is given and returns JSON-serialisable records, so an
operation list is a self-contained replay artefact."""
from __future__ import annotations

NAMES = ["c1", "c2", "chrX", "2L", "sc-1.a", "M", "chr10", "z"]

LAYOUT_KINDS = ("fixed", "fixed-exact", "variable", "onebin", "longlast", "fixed1", "mixed-one")


def gen_layout(rng, maxchroms=4, maxbins=8, kind=None, noscale=False):
    """-> {"names": [...], "edges": [[...], ...], "kind": str}"""
    kind = kind or rng.choice(LAYOUT_KINDS)
    nchr = rng.randint(1, maxchroms)
    names = rng.sample(NAMES, nchr)
    edges = []
    if kind in ("fixed", "fixed-exact", "longlast", "fixed1", "mixed-one"):
        b = 1 if kind == "fixed1" else rng.choice([2, 3, 4, 5, 10, 100, 1000])
        for c in range(nchr):
            nb = rng.randint(1, maxbins)
            if kind == "mixed-one" and c > 0 and rng.random() < 0.5:
                nb = 1
            e = [k * b for k in range(nb)]
            if kind == "fixed-exact" or kind == "fixed1":
                last = nb * b
            elif kind == "longlast":
                # uniform except that some last bin (possibly a contig's only bin) is LONGER
                if rng.random() < 0.6:
                    last = nb * b + rng.randint(1, 2 * b)
                else:
                    last = (nb - 1) * b + rng.randint(1, b)
            else:
                last = (nb - 1) * b + rng.randint(1, b)
            e.append(last)
            edges.append(e)
        if kind == "longlast":
            if all(len(e) == 2 for e in edges):
                edges[rng.randrange(nchr)] = [0, b, 2 * b, 3 * b - rng.randint(0, b - 1)]
            if all(e[-1] - e[-2] <= b for e in edges):
                c = rng.randrange(nchr)
                edges[c][-1] = edges[c][-2] + b + rng.randint(1, b)
        if kind in ("fixed", "fixed-exact", "fixed1", "mixed-one") and all(len(e) == 2 for e in edges):
            # make at least one chromosome multi-bin so that a size is inferable
            edges[0] = [0, b, 2 * b]
    elif kind == "variable":
        for c in range(nchr):
            nb = rng.randint(1, maxbins)
            e = [0]
            for _ in range(nb):
                e.append(e[-1] + rng.randint(1, 9))
            edges.append(e)
    elif kind == "onebin":
        for c in range(nchr):
            edges.append([0, rng.randint(1, 50)])
    if nchr >= 3 and not noscale and rng.random() < 0.08:
        # a genome that may exceed 2**31 bp in total while every contig (and coordinate, also after
        # doubling) fits int32
        maxlen = max(e[-1] for e in edges)
        scale = 1_000_000_000 // maxlen
        if scale > 1:
            edges = [[x * scale for x in e] for e in edges]
    return {"names": names, "edges": edges, "kind": kind}


def nbins_of(layout):
    return sum(len(e) - 1 for e in layout["edges"])


DENSITIES = ("empty", "diag", "sparse", "dense", "row", "lastrow", "single")


def gen_support(rng, n, symmetric, density=None, maxpx=None):
    density = density or rng.choice(DENSITIES)
    cand = [(i, j) for i in range(n) for j in range(i if symmetric else 0, n)]
    if density == "empty":
        px = []
    elif density == "diag":
        px = [(i, i) for i in range(n) if rng.random() < 0.8]
    elif density == "dense":
        px = [p for p in cand if rng.random() < 0.9]
    elif density == "row":
        r = rng.randrange(n)
        px = [p for p in cand if p[0] == r or rng.random() < 0.1]
    elif density == "lastrow":
        px = [p for p in cand if p[0] == n - 1 or p[1] == n - 1 and rng.random() < 0.5]
    elif density == "single":
        px = [rng.choice(cand)]
    else:
        q = rng.choice([0.1, 0.3, 0.5])
        px = [p for p in cand if rng.random() < q]
    if maxpx is not None and len(px) > maxpx:
        px = sorted(rng.sample(px, maxpx))
    return sorted(px)


def dyadic(rng, lo=-64, hi=64):
    return rng.randint(lo * 8, hi * 8) / 8.0


def gen_values(rng, npx, spec, big64=False):
    """spec: {"count": dtype or None, extra columns...}; returns dict col->list.
    big64: let 64-bit integers exceed 2**53 (odd values in [2**53, 2**53.4]: not representable in
    float64, while the total of <= 400 of them still fits int64)."""
    out = {}
    for col, dt in spec.items():
        if dt in ("int32", "int64", "int16", "uint16"):
            mag = rng.choice(["small", "small", "one", "big"])
            if mag == "small":
                out[col] = [rng.randint(1, 9) for _ in range(npx)]
            elif mag == "one":
                out[col] = [1] * npx
            else:
                lim = {"int32": 2**31 - 1, "int64": 2**55 if big64 else 2**40, "int16": 2**15 - 1,
                       "uint16": 2**16 - 1}[dt]
                out[col] = [rng.randint(lim // 4, lim // 3) | 1 for _ in range(npx)]
        else:
            out[col] = [dyadic(rng, 0, 64) if col == "count" else dyadic(rng) for _ in range(npx)]
    return out


def gen_colspec(rng, allow_float_count=True, allow_extra=True):
    r = rng.random()
    if r < 0.6:
        spec = {"count": "int32"}
    elif r < 0.75:
        spec = {"count": "int64"}
    elif r < 0.9 and allow_float_count:
        spec = {"count": "float64"}
    else:
        spec = {"count": "int32"}
    if allow_extra and rng.random() < 0.3:
        spec[rng.choice(["w", "score"])] = rng.choice(["float64", "float64", "int64"])
    return spec


def split_chunks(rng, n, maxchunks=5, allow_empty=True):
    """Chunk sizes summing to n (ordered)."""
    k = rng.randint(1, maxchunks)
    if n == 0:
        return [0] * (k if allow_empty and rng.random() < 0.5 else 1)
    cuts = sorted(rng.randint(0, n) for _ in range(k - 1))
    sizes = [b - a for a, b in zip([0] + cuts, cuts + [n])]
    if not allow_empty:
        sizes = [s for s in sizes if s] or [n]
    return sizes


H5OPTS = [
    None, None,
    {"compression": None, "shuffle": False},
    {"compression": "gzip", "compression_opts": 1, "shuffle": False},
    {"compression": "lzf"},
    {"chunks": [1], "compression": "gzip"},
    {"compression": None, "shuffle": False, "fletcher32": True},
]

METADATA = [
    None, None,
    {},
    {"a": 1},
    {"nested": {"x": [1, 2, {"y": None}], "s": "téxt"}, "f": 1.5, "b": True},
    {"list": [1, "two", 3.0, False, None]},
    {"k" * 20: "v" * 200},
    [], [1, {"a": None}], 0, False, "", "free text", 3.5,
]
ASSEMBLIES = [None, None, "hg19", "mm10", "dm6 (custom)", ""]


def pixels_record(support, values):
    rec = {"bin1_id": [p[0] for p in support], "bin2_id": [p[1] for p in support]}
    rec.update(values)
    return rec


def slice_record(rec, lo, hi):
    return {k: v[lo:hi] for k, v in rec.items()}


def gen_create(rng, layout=None, maxpx=60, symmetric=None, colspec=None, density=None,
               ordered_only=True, simple=False, big64=False):
    """A create op body (without destination)."""
    layout = layout or gen_layout(rng)
    n = nbins_of(layout)
    symmetric = rng.random() < 0.65 if symmetric is None else symmetric
    colspec = colspec or ({"count": "int32"} if simple else gen_colspec(rng))
    support = gen_support(rng, n, symmetric, density, maxpx)
    values = gen_values(rng, len(support), colspec, big64)
    rec = pixels_record(support, values)
    form = rng.choice(["df", "dict", "iter", "iter", "iterdict", "array"] if not simple else ["df", "iter"])
    if form == "array" and (set(colspec) != {"count"} or not symmetric):
        # ArrayLoader handles one dense count matrix; square needs the full matrix
        form = "iter"
    if form in ("df", "dict"):
        sizes = [len(support)]
    elif form == "array":
        sizes = [rng.randint(1, max(1, n))]  # ArrayLoader row-chunk size
    else:
        sizes = split_chunks(rng, len(support))
    chunks = []
    lo = 0
    if form != "array":
        for s in sizes:
            chunks.append(slice_record(rec, lo, lo + s))
            lo += s
    else:
        chunks = [rec]
    op = {
        "op": "create",
        "layout": layout,
        "symmetric": symmetric,
        "dtypes": colspec,
        "form": form,
        "chunks": chunks,
        "arraychunk": sizes[0] if form == "array" else None,
        "h5opts": None if simple else rng.choice(H5OPTS),
        "metadata": None if simple else rng.choice(METADATA),
        "assembly": None if simple else rng.choice(ASSEMBLIES),
        "bin_extra": None,
        "fault": None,
    }
    if not simple and rng.random() < 0.2:
        op["bin_extra"] = {"gc": [dyadic(rng, 0, 1) for _ in range(n)]}
    if form == "df" and rng.random() < 0.3 and len(support) > 1:
        # create_cooler sorts a data frame itself: hand it over shuffled
        perm = list(range(len(support)))
        rng.shuffle(perm)
        op["chunks"] = [{k: [v[p] for p in perm] for k, v in rec.items()}]
    return op


def gen_unordered(rng, layout=None, maxpx=40, symmetric=None, colspec=None, maxchunks=6):
    """Unordered create: a record multiset partitioned into chunks that may
    repeat pixels, be empty, arrive in any order."""
    layout = layout or gen_layout(rng)
    n = nbins_of(layout)
    symmetric = rng.random() < 0.65 if symmetric is None else symmetric
    colspec = colspec or gen_colspec(rng, allow_extra=True)
    k = rng.randint(1, maxchunks)
    chunks = []
    for _ in range(k):
        dens = rng.choice(["empty", "sparse", "sparse", "diag", "row", "single", "dense", "lastrow"])
        support = gen_support(rng, n, symmetric, dens, maxpx)
        values = gen_values(rng, len(support), colspec)
        for col, dt in colspec.items():
            if dt.startswith("int") or dt.startswith("uint"):
                # keep sums comfortably inside the dtype: overflow is C07's business
                values[col] = [min(v, 1000) for v in values[col]]
        chunks.append(pixels_record(support, values))
    ensure_sorted = rng.random() < 0.4
    if ensure_sorted:
        for c in chunks:
            perm = list(range(len(c["bin1_id"])))
            rng.shuffle(perm)
            for key in list(c):
                c[key] = [c[key][p] for p in perm]
    total = sum(len(c["bin1_id"]) for c in chunks)
    mergebuf = rng.choice([1, 2, 3, 5, 8, max(1, total // 2), total + 1, 20_000_000])
    max_merge = rng.choice([1, 2, 3, 4, 200, 200])
    return {
        "op": "create",
        "unordered": {"mergebuf": mergebuf, "max_merge": max_merge, "ensure_sorted": ensure_sorted,
                      "delete_temp": rng.random() >= 0.15},
        "id_dtype": rng.choice(["int64", "int64", "int32"]),
        "chunk_index": rng.choice(["default", "default", "offset", "permuted"]),
        "layout": layout,
        "symmetric": symmetric,
        "dtypes": colspec,
        "form": rng.choice(["iter", "iterdict"]),
        "chunks": chunks,
        "arraychunk": None,
        "h5opts": rng.choice(H5OPTS),
        "metadata": rng.choice(METADATA),
        "assembly": rng.choice(ASSEMBLIES),
        "bin_extra": None,
        "fault": None,
    }


# ---------------------------------------------------------------------- faults
F1_KINDS = ("oob", "neg", "tril", "dup", "neg2", "oob1", "dupfar")


def f1_placements(op):
    """Every (kind, chunk, pos) placement that is meaningful for this stream."""
    out = []
    for k, ch in enumerate(op["chunks"]):
        for sub in F1_KINDS:
            if sub == "tril" and not op["symmetric"]:
                continue
            if sub == "dup" and len(ch["bin1_id"]) == 0:
                continue
            if sub == "dupfar" and len(ch["bin1_id"]) < 2:
                continue
            for pos in ("first", "mid", "last"):
                out.append({"kind": "F1", "sub": sub, "chunk": k, "pos": pos})
    return out


F2_EXCEPTIONS = ("OSError", "OSError", "EOFError", "MemoryError", "RuntimeError", "KeyboardInterrupt", "GeneratorExit")


def f2_placements(op, rng=None):
    """The input iterator raises before chunk k; the exception class varies (every one of them
    means "the input stopped", none may pass for the end of the stream)."""
    out = []
    for k in range(len(op["chunks"]) + 1):
        out.append({"kind": "F2", "chunk": k,
                    "exc": rng.choice(F2_EXCEPTIONS) if rng is not None else "OSError"})
    return out
