"""Runner: fans seeded runs out over forked worker processes, minimises and
writes replay files for violations, filters known findings, writes evidence.

Exit codes: 0 = property held on everything explored (known findings are
printed as KNOWN-FINDING lines); 1 = VIOLATION printed; 2 = harness error.
"""
from __future__ import annotations

import argparse
import concurrent.futures as cf
import faulthandler
import gc
import hashlib
import json
import multiprocessing
import os
import random
import shutil
import sys
import tempfile
import time
import traceback

VERIF = os.path.dirname(os.path.dirname(os.path.abspath(__file__)))
EVIDENCE_DIR = os.path.join(VERIF, "evidence")
REPLAY_DIR = os.path.join(VERIF, "replays")
if os.path.realpath(os.environ.get("COOLSIM_REPO", "/repo")) != "/repo":
    # a self-test against a scratch worktree holding a seeded change: its replay files are not
    # findings about /repo and stay out of /verif
    REPLAY_DIR = os.path.join(tempfile.gettempdir(), "coolsim-selftest-replays")
KNOWN = os.path.join(VERIF, "known_findings.json")


_SCRATCH_PARENT = None


def _scratch_base():
    for d in ("/dev/shm", tempfile.gettempdir()):
        if os.path.isdir(d) and os.access(d, os.W_OK):
            return d
    return tempfile.gettempdir()


def scratch_root():
    """The directory under which every run of this invocation makes its private scratch directory.
    The invoking process creates one parent directory and removes it when it exits, so that runs
    whose worker was killed (fail-fast, hang cap) leave nothing behind."""
    if _SCRATCH_PARENT and os.path.isdir(_SCRATCH_PARENT):
        return _SCRATCH_PARENT
    return _scratch_base()


def make_scratch_parent():
    global _SCRATCH_PARENT
    import atexit
    _SCRATCH_PARENT = tempfile.mkdtemp(prefix="coolsim-inv-", dir=_scratch_base())
    owner = os.getpid()

    def _cleanup(path=_SCRATCH_PARENT):
        if os.getpid() == owner:
            shutil.rmtree(path, ignore_errors=True)

    atexit.register(_cleanup)


def derive_seed(base, prop, i):
    h = hashlib.sha256(("%d/%s/%d" % (base, prop, i)).encode()).digest()
    return int.from_bytes(h[:8], "big")


# ---------------------------------------------------------------- one run
def execute(spec):
    """Execute one simulated run described by `spec` in this process.
    Returns a JSON-able summary."""
    from . import checks, kernel, seams

    seams.install()
    gc.disable()
    t0 = time.time()
    d = tempfile.mkdtemp(prefix="coolsim-", dir=scratch_root())
    try:
        return checks.execute(spec, d, t0)
    finally:
        kernel.deactivate()
        seams.SIMLOCK.reset()
        seams.RLE_BLOCK[0] = None
        gc.collect()
        shutil.rmtree(d, ignore_errors=True)


def _batch(specs):
    faulthandler.enable()
    out = []
    for spec in specs:
        faulthandler.dump_traceback_later(spec.get("timeout", 1200), exit=True)
        try:
            out.append(execute(spec))
        except BaseException as e:  # harness error, never a verdict
            out.append({"harness_error": "%s: %s" % (type(e).__name__, e),
                        "traceback": traceback.format_exc()[-3000:], "spec_seed": spec.get("run_seed"),
                        "index": spec.get("index")})
        finally:
            faulthandler.cancel_dump_traceback_later()
    return out


def _worker_main(task_q, res_q, wid):
    faulthandler.enable()
    flight = os.path.join(scratch_root(), "coolsim-flight-%d-%d.json" % (os.getppid(), wid))
    os.environ["COOLSIM_FLIGHT"] = flight
    try:
        while True:
            item = task_q.get()
            if item is None:
                break
            k, batch = item
            for pos, spec in enumerate(batch):
                res_q.put(("run", wid, k, pos))
                res_q.put(("result", wid, k, _batch([spec])[0]))
            res_q.put(("batch-done", wid, k, None))
    finally:
        res_q.put(("exit", wid, None, None))
        try:
            os.remove(flight)
        except OSError:
            pass


def run_parallel(batches, nw, wall_cap, should_stop=None):
    """Own process pool: survives a worker that dies (segfault in a C
    library, faulthandler timeout) and attributes the death to the run that
    was executing, with its flight-recorded operation list."""
    import queue as _q

    ctx = multiprocessing.get_context("fork")
    task_q = ctx.Queue()
    res_q = ctx.Queue()
    pending = {}
    for k, b in enumerate(batches):
        pending[k] = b
        task_q.put((k, b))
    nextk = len(batches)
    workers = {}
    current = {}
    wid_counter = [0]

    def spawn():
        wid = wid_counter[0]
        wid_counter[0] += 1
        p = ctx.Process(target=_worker_main, args=(task_q, res_q, wid), daemon=True)
        p.start()
        workers[wid] = p

    for _ in range(nw):
        spawn()
    summaries, errors = [], []
    deadline = time.time() + wall_cap
    while pending:
        if time.time() > deadline:
            errors.append({"harness_error": "wall-clock cap of %ds exceeded with %d batches pending" % (
                wall_cap, len(pending))})
            break
        try:
            kind, wid, k, payload = res_q.get(timeout=0.5)
        except _q.Empty:
            kind = None
        if kind == "run":
            current[wid] = (k, payload)
        elif kind == "result":
            (errors if "harness_error" in payload else summaries).append(payload)
            if should_stop is not None and "harness_error" not in payload and should_stop(payload):
                for p in workers.values():
                    p.kill()
                workers.clear()
                pending.clear()
                break
        elif kind == "batch-done":
            pending.pop(k, None)
            current.pop(wid, None)
        elif kind == "exit":
            workers.pop(wid, None)
        if kind is None:
            for wid, p in list(workers.items()):
                if not p.is_alive():
                    p.join()
                    # drain messages that may still be in flight from this worker
                    time.sleep(0.2)
                    while True:
                        try:
                            kind2, wid2, k2, payload2 = res_q.get_nowait()
                        except _q.Empty:
                            break
                        if kind2 == "run":
                            current[wid2] = (k2, payload2)
                        elif kind2 == "result":
                            (errors if "harness_error" in payload2 else summaries).append(payload2)
                        elif kind2 == "batch-done":
                            pending.pop(k2, None)
                            current.pop(wid2, None)
                        elif kind2 == "exit":
                            workers.pop(wid2, None)
                    if wid not in workers:
                        continue
                    del workers[wid]
                    cur = current.pop(wid, None)
                    flight = os.path.join(scratch_root(), "coolsim-flight-%d-%d.json" % (os.getpid(), wid))
                    rec = None
                    try:
                        with open(flight) as f:
                            rec = json.load(f)
                        os.remove(flight)
                    except Exception:
                        pass
                    if cur is not None and cur[0] in pending:
                        k0, pos = cur
                        batch = pending.pop(k0)
                        spec = batch[pos]
                        errors.append({"harness_error": "worker died (exit code %s) during run index %s seed %s" % (
                            p.exitcode, spec.get("index"), spec.get("run_seed")), "crash": True,
                            "spec": spec, "flight": rec})
                        rest = batch[pos + 1:]
                        if rest:
                            pending[nextk] = rest
                            task_q.put((nextk, rest))
                            nextk += 1
                    spawn()
    for _ in range(len(workers) + 2):
        task_q.put(None)
    t_end = time.time() + 5
    for p in list(workers.values()):
        p.join(max(0.1, t_end - time.time()))
        if p.is_alive():
            p.kill()
    return summaries, errors


# ------------------------------------------------------------------- shrink
def same_class(summary, cls):
    return any((v["prop"], v["oracle"]) == cls for v in summary.get("violations", []))


def shrink(spec, cls, budget_s=90, accept=None):
    """Delta-debug the explicit operation list (then simplify faults and the
    schedule) while the same violation class persists."""
    from . import shrinker

    return shrinker.minimise(spec, cls, execute, same_class, budget_s, accept)


# --------------------------------------------------------------------- main
def load_known():
    if not os.path.exists(KNOWN):
        return {"findings": [], "fixed": []}
    with open(KNOWN) as f:
        return json.load(f)


def match_known(known, prop, v):
    for k in known.get("findings", []):
        if k["property"] != prop:
            continue
        if k.get("oracle") and k["oracle"] != v["oracle"]:
            continue
        needle = k.get("detail_contains")
        if needle and needle not in json.dumps(v.get("detail")):
            continue
        return k
    return None


def main(argv=None):
    from . import checks

    make_scratch_parent()
    ap = argparse.ArgumentParser()
    ap.add_argument("prop")
    ap.add_argument("--tier", default=os.environ.get("VERIF_TIER", "quick"))
    ap.add_argument("--replay")
    ap.add_argument("--seed", type=int, default=int(os.environ.get("VERIF_SEED", "0")))
    ap.add_argument("--workers", type=int, default=int(os.environ.get("VERIF_WORKERS", "16")))
    ap.add_argument("--runs", type=int, default=None)
    ap.add_argument("--no-shrink", action="store_true")
    ap.add_argument("--digests", action="store_true", help="print per-run digests (determinism self-test)")
    ap.add_argument("--no-evidence", action="store_true")
    ap.add_argument("--fail-fast", action="store_true", help="stop dispatching runs after the first own violation")
    ap.add_argument("--show-others", action="store_true", help="print one example of every other-property observation")
    a = ap.parse_args(argv)
    prop = a.prop
    if prop not in checks.PROPS:
        print("unknown property", prop)
        return 2
    os.makedirs(EVIDENCE_DIR, exist_ok=True)
    os.makedirs(REPLAY_DIR, exist_ok=True)
    known = load_known()

    if a.replay:
        with open(a.replay) as f:
            rep = json.load(f)
        spec = rep["spec"]
        spec["mode"] = "replay"
        summ = _batch([spec])[0]
        if "harness_error" in summ:
            print("HARNESS-ERROR", summ["harness_error"])
            print(summ.get("traceback", ""))
            return 2
        cls = tuple(rep["violation_class"])
        if same_class(summ, cls):
            v = [x for x in summ["violations"] if (x["prop"], x["oracle"]) == cls][0]
            print("replayed: %s %s at op %s" % (cls[0], cls[1], v["op"]))
            for line in (v["detail"] if isinstance(v["detail"], list) else [v["detail"]]):
                print("   ", line)
            same = summ.get("digest") == rep.get("digest")
            print("digest %s recorded digest" % ("==" if same else "!="))
            print("VIOLATION property=%s replay=%s" % (prop, a.replay))
            return 1
        print("replay did not reproduce %r; observed: %r" % (cls, [(x["prop"], x["oracle"]) for x in summ.get("violations", [])]))
        return 0

    t0 = time.time()
    cfg = checks.PROPS[prop]
    tier = a.tier if a.tier in ("quick", "thorough") else "quick"
    nruns = a.runs if a.runs is not None else cfg["runs"][tier]
    specs = checks.make_specs(prop, tier, a.seed, nruns)
    nw = max(1, min(a.workers, len(specs)))
    per = max(1, min(cfg.get("batch", 8), (len(specs) + nw - 1) // nw))
    batches = [specs[k:k + per] for k in range(0, len(specs), per)]
    summaries = []
    harness_errors = []
    wall_cap = cfg.get("wall_cap", {"quick": 3600, "thorough": 8 * 3600})[tier]
    def _stop(summ):
        return a.fail_fast and any(v["prop"] == prop and match_known(known, prop, v) is None
                                   for v in summ.get("violations", []))

    summaries, harness_errors = run_parallel(batches, nw, wall_cap, _stop)
    summaries.sort(key=lambda s: s["index"])
    if a.digests:
        for s in summaries:
            print("DIGEST", s["index"], s["run_seed"], s["digest"])

    # ------------------------------------------------ violations
    own = []
    others = {}
    for s in summaries:
        for v in s.get("violations", []):
            if v["prop"] == prop:
                own.append((s, v))
            else:
                others[(v["prop"], v["oracle"])] = others.get((v["prop"], v["oracle"]), 0) + 1
    if True:   # one example of every other-property observation is always logged (never a verdict)
        seen = set()
        for s in summaries:
            for v in s.get("violations", []):
                key = (v["prop"], v["oracle"])
                if v["prop"] != prop and key not in seen:
                    seen.add(key)
                    print("OTHER", key, "run", s["index"], "seed", s["run_seed"], "op", v["op"], v["detail"])
                    if s.get("ops"):
                        from .checks import abbreviate
                        print("      op:", abbreviate(s["ops"][v["op"]:v["op"] + 1]))
    known_hits = {}
    unknown = []
    for s, v in own:
        k = match_known(known, prop, v)
        if k is not None:
            known_hits.setdefault(k["id"], (k, s, v))
        else:
            unknown.append((s, v))
    for kid, (k, s, v) in sorted(known_hits.items()):
        print("KNOWN-FINDING: property=%s %s" % (prop, k["what"]))
    exit_code = 0
    reported = set()
    for s, v in unknown:
        cls = (v["prop"], v["oracle"])
        if cls in reported:
            continue
        reported.add(cls)
        spec = dict(s["spec"])
        spec["mode"] = "replay"
        spec["ops"] = v.get("ops_override") or s["ops"]
        spec["schedule"] = s.get("schedule") if not v.get("ops_override") else None
        if v.get("ops_override"):
            v = dict(v)
            v["op"] = len(spec["ops"]) - 1 if v["op"] >= len(spec["ops"]) else v["op"]
        final = spec
        viol = v
        if not a.no_shrink:
            try:
                final, viol2 = shrink(spec, cls, cfg.get("shrink_budget", 90),
                                      accept=lambda v_, _p=prop: match_known(known, _p, v_) is None)
                if viol2 is not None:
                    viol = viol2
            except Exception as e:
                print("shrink failed: %r" % (e,))
        check = _batch([final])[0]
        path = os.path.join(REPLAY_DIR, "%s-%s-%d.json" % (prop, v["oracle"], s["run_seed"] % 10**8))
        with open(path, "w") as f:
            json.dump({"property": prop, "violation_class": list(cls), "violation": viol,
                       "run_seed": s["run_seed"], "digest": check.get("digest"),
                       "ops_before_shrink": len(s["ops"]) if s.get("ops") else None,
                       "spec": final}, f, indent=1, default=str)
        print("violation: %s %s at op %s (seed %d)" % (cls[0], cls[1], viol.get("op"), s["run_seed"]))
        for line in (viol["detail"] if isinstance(viol["detail"], list) else [viol["detail"]])[:6]:
            print("   ", line)
        print("VIOLATION property=%s replay=%s" % (prop, path))
        exit_code = 1
    for e in harness_errors:
        if e.get("crash") and e.get("flight"):
            spec = dict(e["spec"])
            spec["mode"] = "replay"
            spec["ops"] = e["flight"]["ops"]
            path = os.path.join(REPLAY_DIR, "%s-crash-%d.json" % (prop, spec["run_seed"] % 10**8))
            with open(path, "w") as f:
                json.dump({"property": prop, "violation_class": [prop, "crash"], "spec": spec,
                           "violation": {"detail": e["harness_error"]}}, f, indent=1, default=str)
            print("crash replay written:", path)
        print("HARNESS-ERROR", e.get("harness_error"))
        if e.get("traceback"):
            print(e["traceback"])
    if harness_errors and exit_code == 0:
        exit_code = 2

    wall = time.time() - t0
    if not a.no_evidence:
        ev = checks.evidence(prop, tier, a.seed, summaries, wall, len(unknown), others, known_hits,
                             harness_errors)
        with open(os.path.join(EVIDENCE_DIR, prop + ".json"), "w") as f:
            json.dump(ev, f, indent=1, default=str)
    print("%s %s: %d runs, %d own violations (%d known), other-property observations: %s, %.1fs" % (
        prop, tier, len(summaries), len(own), len(own) - len(unknown),
        {"%s/%s" % k: n for k, n in sorted(others.items())}, wall))
    return exit_code


if __name__ == "__main__":
    sys.exit(main())
