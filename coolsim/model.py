"""Reference model: what every file should now contain.

A deliberately small executable model of (a) cooler data collections as plain
tables and (b) the HDF5 link tree that holds them, updated operation by
operation.  Aggregation is exact: integer columns are summed as int64 (values
are generated small or checked against the dtype limit explicitly) and float
columns hold small dyadic rationals, so every sum is exact in float64.
"""
from __future__ import annotations

import copy

import numpy as np
import pandas as pd

INDET = "INDETERMINATE"  # destination that held a cooler before a failed re-creation


# ----------------------------------------------------------------- collections
def true_binsize(chrom_idx, start, end, lengths):
    """C20's definition: b is a true bin size iff every bin is
    [k*b, min((k+1)*b, length)).  Returns (b or None, ambiguous) where
    `ambiguous` is True when every chromosome has a single bin (no width can
    be inferred from the table, 'variable' is then the only honest label)."""
    chrom_idx = np.asarray(chrom_idx)
    start = np.asarray(start)
    end = np.asarray(end)
    widths = set()
    for c in np.unique(chrom_idx):
        m = chrom_idx == c
        w = (end[m] - start[m])[:-1]
        widths.update(int(x) for x in w)
    if len(widths) != 1:
        return None, len(widths) == 0
    b = widths.pop()
    for c in np.unique(chrom_idx):
        m = chrom_idx == c
        s, e = start[m], end[m]
        L = lengths[int(c)]
        k = np.arange(len(s))
        if not (np.array_equal(s, k * b) and np.array_equal(e, np.minimum((k + 1) * b, L))):
            return None, False
    return b, False


class Coll:
    """A cooler data collection as plain data."""

    def __init__(self, chromnames, lengths, bins, pixels, symmetric, metadata=None,
                 assembly=None, bin_extra=None, chrom_enum=True):
        self.chromnames = list(chromnames)
        self.lengths = [int(x) for x in lengths]
        # bins: DataFrame with integer 'chrom' (index into chromnames), start, end
        self.bins = bins.reset_index(drop=True)
        self.bin_extra = dict(bin_extra or {})  # name -> np.ndarray
        # pixels: DataFrame bin1_id, bin2_id, value columns; sorted; exact dtypes
        self.pixels = pixels.reset_index(drop=True)
        self.symmetric = bool(symmetric)
        self.metadata = {} if metadata is None else metadata
        self.assembly = "unknown" if assembly is None else assembly
        self.chrom_enum = chrom_enum

    def copy(self):
        c = copy.copy(self)
        c.chromnames = list(self.chromnames)
        c.lengths = list(self.lengths)
        c.bins = self.bins.copy()
        c.bin_extra = {k: v.copy() for k, v in self.bin_extra.items()}
        c.pixels = self.pixels.copy()
        c.metadata = copy.deepcopy(self.metadata)
        if getattr(self, "no_mode_attr", False):
            c.no_mode_attr = True
        if hasattr(self, "approx_cols"):
            c.approx_cols = set(self.approx_cols)
        if hasattr(self, "dtype_alternatives"):
            c.dtype_alternatives = {k: set(v) for k, v in self.dtype_alternatives.items()}
        return c

    @property
    def nbins(self):
        return len(self.bins)

    @property
    def value_columns(self):
        return [c for c in self.pixels.columns if c not in ("bin1_id", "bin2_id")]

    def binsize(self):
        return true_binsize(self.bins["chrom"].values, self.bins["start"].values,
                            self.bins["end"].values, self.lengths)

    def dense(self, col="count"):
        n = self.nbins
        px = self.pixels
        dt = px[col].dtype if col in px else np.int32
        m = np.zeros((n, n), dtype=dt)
        if len(px):
            i = px["bin1_id"].values
            j = px["bin2_id"].values
            m[i, j] = px[col].values
            if self.symmetric:
                m[j, i] = px[col].values
        return m

    def total(self, col="count"):
        if col not in self.pixels:
            return 0
        v = self.pixels[col].values
        if v.dtype.kind in "iu":
            return int(v.astype(object).sum()) if len(v) else 0
        return float(v.sum()) if len(v) else 0

    def signature(self):
        """Coarse abstract state for the 'distinct states' measure."""
        b, _ = self.binsize()
        return (len(self.chromnames), self.nbins, len(self.pixels), self.symmetric,
                b is not None, tuple(self.value_columns))


def bins_frame(chromnames, per_chrom_edges):
    """Build the model bin frame from per-chromosome edge lists."""
    rows = []
    for ci, edges in enumerate(per_chrom_edges):
        for s, e in zip(edges[:-1], edges[1:]):
            rows.append((ci, int(s), int(e)))
    return pd.DataFrame(rows, columns=["chrom", "start", "end"]).astype(
        {"chrom": np.int64, "start": np.int64, "end": np.int64})


def cooler_bins(coll_or_names, bins=None):
    """The pandas bin table handed to cooler for a model bin frame."""
    if isinstance(coll_or_names, Coll):
        names, bins, extra = coll_or_names.chromnames, coll_or_names.bins, coll_or_names.bin_extra
    else:
        names, extra = coll_or_names, {}
    df = pd.DataFrame({
        "chrom": [names[c] for c in bins["chrom"].values],
        "start": bins["start"].values,
        "end": bins["end"].values,
    })
    for k, v in extra.items():
        df[k] = v
    return df


def aggregate(frames, columns, agg=None):
    """Exact element-wise aggregate of pixel frames: the model of merging and
    of summing repeated pixels in unordered ingestion."""
    agg = agg or {}
    frames = [f for f in frames if len(f)]
    if not frames:
        return None
    cat = pd.concat(frames, ignore_index=True)
    out = {}
    keys = list(zip(cat["bin1_id"].tolist(), cat["bin2_id"].tolist()))
    idx = {}
    for pos, k in enumerate(keys):
        idx.setdefault(k, []).append(pos)
    ks = sorted(idx)
    out["bin1_id"] = [k[0] for k in ks]
    out["bin2_id"] = [k[1] for k in ks]
    for col in columns:
        vals = cat[col].tolist()
        how = agg.get(col, "sum")
        res = []
        for k in ks:
            vs = [vals[p] for p in idx[k]]
            if how == "sum":
                res.append(sum(vs))
            elif how == "max":
                res.append(max(vs))
            elif how == "min":
                res.append(min(vs))
            elif how == "first":
                res.append(vs[0])
            elif how == "count":
                res.append(len(vs))
            elif how in ("np.std", "np.var"):
                # a NumPy callable is applied as it is: population statistics (ddof = 0)
                res.append(float(getattr(np, how[3:])(np.asarray(vs, dtype=float))))
            else:  # pragma: no cover
                raise ValueError(how)
        out[col] = res
    return out


def fits(values, dtype):
    dtype = np.dtype(dtype)
    if dtype.kind in "iu":
        info = np.iinfo(dtype)
        return all(info.min <= int(v) <= info.max for v in values)
    return True


def pixel_frame(d, dtypes):
    """dict of python lists -> DataFrame with exact dtypes (object -> dtype)."""
    df = pd.DataFrame({"bin1_id": np.asarray(d["bin1_id"], dtype=np.int64),
                       "bin2_id": np.asarray(d["bin2_id"], dtype=np.int64)})
    for col, dt in dtypes.items():
        df[col] = np.asarray(d[col], dtype=dt)
    return df


def coarsen_bins_model(coll, k):
    """New bin table: each new bin is the union of k consecutive old bins of
    one chromosome (last group may be smaller).  Returns (frame, old->new map)."""
    rows = []
    mapping = np.zeros(coll.nbins, dtype=np.int64)
    b = coll.bins
    new_id = 0
    for c in range(len(coll.chromnames)):
        ids = np.flatnonzero(b["chrom"].values == c)
        for g in range(0, len(ids), k):
            grp = ids[g:g + k]
            rows.append((c, int(b["start"].values[grp[0]]), int(b["end"].values[grp[-1]])))
            mapping[grp] = new_id
            new_id += 1
    frame = pd.DataFrame(rows, columns=["chrom", "start", "end"]).astype(np.int64)
    return frame, mapping


def coarsen_model(coll, k, columns=None, agg=None, dtypes=None):
    frame, mapping = coarsen_bins_model(coll, k)
    columns = columns or ["count"]
    px = coll.pixels
    re = pd.DataFrame({"bin1_id": mapping[px["bin1_id"].values] if len(px) else [],
                       "bin2_id": mapping[px["bin2_id"].values] if len(px) else []})
    for col in columns:
        re[col] = px[col].values
    out = aggregate([re], columns, agg)
    dts = {col: (dtypes or {}).get(col, px[col].dtype) for col in columns}
    if out is None:
        out = {"bin1_id": [], "bin2_id": [], **{c: [] for c in columns}}
    ok = all(fits(out[c], dts[c]) for c in columns)
    new = Coll(coll.chromnames, coll.lengths, frame, pixel_frame(out, dts) if ok else
               pixel_frame({"bin1_id": [], "bin2_id": [], **{c: [] for c in columns}}, dts),
               coll.symmetric)
    if getattr(coll, "dtype_alternatives", None) and not dtypes:
        new.dtype_alternatives = {c: set(v) for c, v in coll.dtype_alternatives.items() if c in columns}
    new.approx_cols = {c for c in columns if str((agg or {}).get(c, "")).startswith("np.")} | \
        (set(getattr(coll, "approx_cols", ())) & set(columns))
    return new, ok


# ------------------------------------------------------------------- link tree
class Node:
    """An HDF5 object in the model: a group (optionally holding a collection)
    or an opaque dataset."""

    _ids = [0]

    def __init__(self, kind="group"):
        Node._ids[0] += 1
        self.id = Node._ids[0]
        self.kind = kind
        self.attrs = {}       # planted, unrelated attributes
        self.children = {}    # name -> ("h", Node) | ("s", path) | ("x", fileid, path)
        self.coll = None      # None | Coll | INDET
        self.data = None      # dataset payload (list of ints)
        self.dirty = False    # may hold left-overs of a failed creation at this group
        self.tag = None       # "mcool" | "scool" root tags
        self.prop = None      # property answerable for this collection's content
        self.verified = False # read back equal to the model at least once

    def deepcopy(self, memo=None, keep_ids=False):
        """keep_ids=False: a true copy (new object identities, as cp makes);
        keep_ids=True: the same objects in a cloned model state."""
        memo = {} if memo is None else memo
        if self.id in memo:
            return memo[self.id]
        n = Node(self.kind)
        if keep_ids:
            Node._ids[0] -= 1
            n.id = self.id
        memo[self.id] = n
        n.attrs = dict(self.attrs)
        n.coll = self.coll.copy() if isinstance(self.coll, Coll) else self.coll
        n.data = list(self.data) if self.data is not None else None
        n.dirty = self.dirty
        n.tag = self.tag
        n.prop = self.prop
        n.verified = self.verified
        for k, l in self.children.items():
            if l[0] == "h":
                n.children[k] = ("h", l[1].deepcopy(memo, keep_ids))
            else:
                n.children[k] = l
        return n


RESERVED = ("chroms", "bins", "pixels", "indexes")


def split(path):
    return [p for p in path.split("/") if p]


class FS:
    """files: fileid -> root Node (absent = file does not exist)."""

    def __init__(self):
        self.files = {}

    def clone(self):
        memo = {}
        o = FS()
        o.files = {k: v.deepcopy(memo, keep_ids=True) for k, v in self.files.items()}
        return o

    # -- resolution
    def lookup(self, fid, path, depth=0, follow_last=True):
        """Resolve to a Node or None (missing / dangling)."""
        r = self.lookup2(fid, path, depth, follow_last)
        return r[0] if r is not None else None

    def lookup2(self, fid, path, depth=0, follow_last=True):
        """Resolve to (Node-or-link, file id the node lives in) or None.  Soft
        links are resolved in the file that holds them."""
        if depth > 8 or fid not in self.files:
            return None
        node = self.files[fid]
        parts = split(path)
        for k, name in enumerate(parts):
            if node.kind != "group" or name not in node.children:
                return None
            l = node.children[name]
            last = k == len(parts) - 1
            if l[0] == "h":
                node = l[1]
            else:
                if last and not follow_last:
                    return l, fid
                r = self.lookup2(fid, l[1], depth + 1) if l[0] == "s" else self.lookup2(l[1], l[2], depth + 1)
                if r is None:
                    return None
                node, fid = r
        return node, fid

    def parent_and_name(self, fid, path, create=False):
        parts = split(path)
        if not parts:
            return None, None
        node = self.files[fid]
        for name in parts[:-1]:
            if node.kind != "group":
                return None, None
            if name not in node.children:
                if not create:
                    return None, None
                child = Node()
                node.children[name] = ("h", child)
                node = child
            else:
                l = node.children[name]
                if l[0] == "h":
                    node = l[1]
                else:
                    r = self.lookup2(fid, l[1]) if l[0] == "s" else self.lookup2(l[1], l[2])
                    if r is None:
                        return None, None
                    node, fid = r
        return node, parts[-1]

    def walk(self, fid):
        """All (path, node) reachable from the root through any link, the way
        cooler's listing traverses (values() resolves soft/external links).
        Dangling links are reported as (path, None)."""
        out = []
        root = self.files[fid]
        out.append(("/", root))

        def rec(node, prefix, depth, cur):
            if depth > 8 or node.kind != "group":
                return
            for name in node.children:
                p = prefix + name
                l = node.children[name]
                nxt = cur
                if l[0] == "h":
                    child = l[1]
                else:
                    r = self.lookup2(cur, l[1]) if l[0] == "s" else self.lookup2(l[1], l[2])
                    child, nxt = r if r is not None else (None, cur)
                out.append((p, child))
                if child is not None:
                    rec(child, p + "/", depth + 1, nxt)

        rec(root, "/", 0, fid)
        return out

    def canonical(self, fid, path, depth=0, partial=False):
        """Expand soft links: the absolute path (same file) that `path`
        denotes, or None if it leaves the file / dangles.  With partial=True a
        missing tail is appended verbatim (a destination yet to be created)."""
        if depth > 8:
            return None
        node = self.files[fid]
        cur = []
        parts = split(path)
        for k, name in enumerate(parts):
            if node is None or node.kind != "group" or name not in node.children:
                if partial and node is not None and node.kind == "group":
                    return "/" + "/".join(cur + parts[k:])
                return None
            l = node.children[name]
            if l[0] == "h":
                node = l[1]
                cur.append(name)
            elif l[0] == "s":
                rest = "/".join(parts[k + 1:])
                return self.canonical(fid, l[1].rstrip("/") + ("/" + rest if rest else ""), depth + 1,
                                      partial)
            else:
                return None
        return "/" + "/".join(cur)

    def in_subtree(self, fid, top, target, depth=0, seen=None):
        """Is node `target` reachable from node `top` (inclusive)?"""
        seen = set() if seen is None else seen
        if top is target:
            return True
        if top is None or top.id in seen or top.kind != "group" or depth > 10:
            return False
        seen.add(top.id)
        for l in top.children.values():
            if l[0] == "h":
                child = l[1]
            elif l[0] == "s":
                child = self.lookup(fid, l[1])
            else:
                child = self.lookup(l[1], l[2])
            if child is not None and self.in_subtree(fid, child, target, depth + 1, seen):
                return True
        return False

    def has_cycle(self, fid):
        """Does any path from the root revisit a node already on the path
        (through hard, soft or external links)?"""
        def rec(node, cur, stack, depth):
            if node.kind != "group":
                return False
            if node.id in stack or depth > 12:
                return True
            stack = stack | {node.id}
            for l in node.children.values():
                nxt = cur
                if l[0] == "h":
                    child = l[1]
                else:
                    r = self.lookup2(cur, l[1]) if l[0] == "s" else self.lookup2(l[1], l[2])
                    if r is None:
                        continue
                    child, nxt = r
                if rec(child, nxt, stack, depth + 1):
                    return True
            return False
        return rec(self.files[fid], fid, frozenset(), 0)

    def coolers(self, fid):
        """path -> Coll|INDET for every recognised collection path."""
        res = {}
        for p, n in self.walk(fid):
            if n is not None and n.kind == "group" and n.coll is not None:
                res[p] = n
        return res

    def has_dangling(self, fid):
        return any(n is None for _p, n in self.walk(fid))

    def has_external(self, fid):
        def rec(node, seen):
            if node.id in seen or node.kind != "group":
                return False
            seen.add(node.id)
            for l in node.children.values():
                if l[0] == "x":
                    return True
                if l[0] == "h" and rec(l[1], seen):
                    return True
            return False
        return rec(self.files[fid], set())
