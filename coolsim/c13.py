"""C13: fault enumeration.  One run = one workload (a populated file plus one
producing operation); every F1 placement, every F2 index, every F4 open index
and every F6 task index of that workload is injected in turn (state restored
in between), F3 interrupt positions are sampled stratified over the protocol
(all of them in the thorough tier for small workloads), and F5 process-kill
snapshots are examined at every close boundary of every execution."""
from __future__ import annotations

import copy
import glob
import os
import shutil

from . import gen, histories, seams
from .model import Coll


def _setup_ops(rng, cfg):
    """0-3 neighbour collections, links and planted content in f0 (and
    inputs for merge/coarsen in f1)."""
    ops = []
    n = rng.choice([0, 1, 1, 2, 2, 3])
    paths = rng.sample(["/n1", "/n2/x", "/", "/deep/er/n3"], n)
    for p in paths:
        op = gen.gen_create(rng, maxpx=20, simple=rng.random() < 0.5)
        op.update(file="f0", path=p, mode="a")
        ops.append(op)
    if paths and rng.random() < 0.5:
        src = rng.choice(paths)
        if src != "/":
            ops.append({"op": "ln", "soft": rng.random() < 0.5, "src": {"file": "f0", "path": src},
                        "dst": {"file": "f0", "path": "/lnk"}})
    if paths and rng.random() < 0.6:
        ops.append({"op": "plant", "what": "attr", "file": "f0", "path": rng.choice(paths + ["/"]),
                    "name": "lab", "value": rng.choice(["x", 7, [1, 2]])})
    if rng.random() < 0.4:
        ops.append({"op": "plant", "what": rng.choice(["group", "dataset"]), "file": "f0", "path": "/misc",
                    "value": [1, 2, 3]})
    return ops


def _producer(rng, fs, cfg):
    """The producing operation aimed at a destination in f0 (or a new file)."""
    kind = rng.choice(["create", "create", "create", "unordered", "merge", "coarsen", "coarsen", "scool"])
    pre = []
    occupied = histories.all_paths(fs, "f0") if "f0" in fs.files else []
    r = rng.random()
    if r < 0.15 or "f0" not in fs.files:
        dest = ("f9", rng.choice(["/", "/a"]))          # new file
    elif r < 0.55:
        dest = ("f0", rng.choice(["/new", "/n2/y", "/g/h"]))  # new group in the populated file
    elif r < 0.70 and "/misc" in occupied:
        dest = ("f0", "/misc")                           # existing non-cooler object
    elif r < 0.82:
        dest = ("f0", "/")                               # root (cooler or not)
    else:
        have = histories.cooler_paths(fs, "f0")
        dest = ("f0", rng.choice(have)) if have else ("f0", "/new")
    mode = "a"
    if dest[0] == "f9" and rng.random() < 0.5:
        mode = "w"
    if kind in ("create", "unordered"):
        op = gen.gen_create(rng, maxpx=30) if kind == "create" else gen.gen_unordered(rng, maxpx=15, maxchunks=4)
        if op["form"] == "array":
            op["form"] = "iter"
            rec = op["chunks"][0]
            op["chunks"] = [rec]
        if kind == "unordered":
            # keeping the temporary files must not change what happens to errors
            op["unordered"]["delete_temp"] = rng.random() < 0.6
        op.update(file=dest[0], path=dest[1], mode=mode)
        return pre, op
    if kind == "scool":
        op = histories.gen_scool(rng, cfg)
        op.update(file="f9", mode="w")
        return pre, op
    # merge / coarsen need inputs in another file
    lay = gen.gen_layout(rng, 3, 6)
    symm = rng.random() < 0.7
    nin = 1 if kind == "coarsen" else rng.randint(1, 3)
    for k in range(nin):
        c = histories._same_layout_create(rng, cfg, lay, symm, {"count": "int32"}, 30,
                                          density=rng.choice(["dense", "sparse", None]))
        same_file = kind == "coarsen" and rng.random() < 0.5 and dest[0] == "f0"
        c.update(file="f0" if same_file else "f1", path="/src%d" % k, mode="a")
        pre.append(c)
    if kind == "merge":
        op = {"op": "merge", "file": dest[0], "path": dest[1], "mode": mode,
              "inputs": [{"file": c["file"], "path": c["path"]} for c in pre],
              "mergebuf": rng.choice([1, 3, 10, 10**6]), "columns": None, "agg": None, "fault": None}
    else:
        c = pre[0]
        op = {"op": "coarsen", "prop": "C08", "src": {"file": c["file"], "path": c["path"]},
              "file": dest[0], "path": dest[1], "mode": "a", "factor": rng.choice([2, 3]),
              "chunksize": rng.choice([1, 3, 7, 10**6]), "nproc": rng.choice([1, 1, 2, 3]),
              "columns": None, "agg": None, "cli": False, "fault": None}
        if c["file"] == dest[0] and dest[1] == "/":
            op["path"] = "/new"
    return pre, op


def _chunk_stream(op):
    if op["op"] == "create":
        return op
    return None


def run(storerun, rng, cfg, tier):
    r = storerun
    sim = r.sim
    setup = _setup_ops(rng, cfg)
    r.run(setup, stop_on_violation=False)
    pre, prod = _producer(rng, r.fs, cfg)
    base_ops = setup + pre
    for k, op in enumerate(pre):
        r.run_one(len(setup) + k, op)
    r.ops = list(base_ops)
    setup_viol = len(r.violations)
    # ---- save the base state
    based = os.path.join(r.S, ".base")
    os.makedirs(based, exist_ok=True)
    for p in glob.glob(os.path.join(r.S, "*.cool")):
        shutil.copyfile(p, os.path.join(based, os.path.basename(p)))
    base_fs = r.fs.clone()

    def restore():
        for p in glob.glob(os.path.join(r.S, "*.cool")):
            os.remove(p)
        for p in glob.glob(os.path.join(based, "*.cool")):
            shutil.copyfile(p, os.path.join(r.S, os.path.basename(p)))
        r.fs = base_fs.clone()
        r.live.clear()
        seams.SIMLOCK.reset()

    def attempt(op, reissue):
        restore()
        n0 = len(r.violations)
        idx = len(base_ops)
        ops = base_ops + [op]
        r.ops = ops
        res = r.run_one(idx, op)
        if reissue:
            op2 = copy.deepcopy(op)
            op2["fault"] = None
            op2["reissue"] = True
            ops = ops + [op2]
            r.ops = ops
            r.run_one(idx + 1, op2)
            r.stat("reissued")
        for v in r.violations[n0:]:
            v["ops_override"] = copy.deepcopy(ops)
        return res

    # ---- fault-free pass with counting (also the fault-free configuration)
    count_op = copy.deepcopy(prod)
    count_op["fault"] = {"kind": "count-lines"}
    restore()
    r.ops = base_ops + [count_op]
    n0 = len(r.violations)
    res = r.run_one(len(base_ops), count_op)
    for v in r.violations[n0:]:
        v["ops_override"] = copy.deepcopy(r.ops)
    tracer = r.last_tracer
    nlines = tracer.count if tracer is not None else 0
    nopens = r._open_count
    nattrs = r._attr_count
    nflush = r._flush_count
    ntasks = r._task_count
    nchunks_prod = r._iter_chunks_seen
    r.stat("workloads")
    if r.last_exc is not None:
        # the workload itself does not succeed fault-free: nothing to enumerate
        r.stat("workload-not-runnable")
        return
    placements = []
    stream = _chunk_stream(prod)
    if stream is not None:
        n = gen.nbins_of(prod["layout"])
        placements += [p for p in gen.f1_placements(prod) if not (p["sub"] == "tril" and n < 2)]
        placements += gen.f2_placements(prod, rng)
        if prod["form"] in ("df", "dict") and not prod.get("unordered"):
            placements.append({"kind": "F0", "sub": "badcolumn"})
    elif prod["op"] in ("merge", "coarsen"):
        placements += [{"kind": "F2", "chunk": k, "exc": rng.choice(gen.F2_EXCEPTIONS)} for k in range(nchunks_prod + 1)]
    elif prod["op"] == "scool":
        for cell in sorted(prod["cells"]):
            body = {"chunks": prod["cells"][cell]["chunks"], "symmetric": prod["symmetric"]}
            n = gen.nbins_of(prod["layout"])
            for p in [q for q in gen.f1_placements(body) if not (q["sub"] == "tril" and n < 2)] + gen.f2_placements(body, rng):
                p = dict(p)
                p["cell"] = cell
                placements.append(p)
    placements += [{"kind": "F4", "open": j} for j in range(nopens)]
    # a few bursts of consecutive failing opens (a lock held by another program for a while)
    for _ in range(min(4, nopens)):
        placements.append({"kind": "F4", "open": rng.randrange(nopens), "width": rng.choice([2, 3, 5])})
    # every attribute write of the operation fails in turn (a full or failing disk at the very last step)
    placements += [{"kind": "F9", "attr": j} for j in range(nattrs)]
    # every flush of buffered data fails in turn (the point where EIO / ENOSPC of earlier writes surfaces)
    placements += [{"kind": "F10", "flush": j} for j in range(nflush)]
    if prod["op"] == "coarsen" and prod.get("nproc", 1) > 1:
        placements += [{"kind": "F6", "task": t, "exc": rng.choice(["MemoryError", "OSError"])}
                       for t in range(ntasks)]
    # F3: stratified sample of line events (all of them when small, thorough tier)
    if nlines > 0:
        if tier == "thorough" and nlines <= 1500:
            lines = list(range(1, nlines + 1))
        else:
            K = 24 if tier == "quick" else 160
            K = min(K, nlines)
            lines = sorted({rng.randint(j * nlines // K + 1, (j + 1) * nlines // K) for j in range(K)}
                           | {nlines, max(1, nlines - 1), max(1, nlines - 3)})
        placements += [{"kind": "F3", "line": ln} for ln in lines]
    cap = cfg.get("max_placements", {"quick": 140, "thorough": 2500})[tier]
    if len(placements) > cap:
        keep = [p for p in placements if p["kind"] != "F3"]
        f3 = [p for p in placements if p["kind"] == "F3"]
        if len(keep) > cap:
            keep = rng.sample(keep, cap)
        room = max(8, cap - len(keep))
        if len(f3) > room:
            f3 = rng.sample(f3, room)
        placements = keep + f3
    r.stat("placements", len(placements))
    r.stat("lines-in-workload", nlines)
    for k, pl in enumerate(placements):
        op = copy.deepcopy(prod)
        op["fault"] = pl
        pooled = prod["op"] == "coarsen" and prod.get("nproc", 1) > 1
        attempt(op, reissue=(k % 3 == 0) or (pooled and pl["kind"] in ("F4", "F6")))
        if len(r.violations) > setup_viol + 3:
            break
