"""Online history generators for the store engine.  A generator is called
before every operation with the PRNG and the current model state and returns
the next explicit operation record (or None to stop)."""
from __future__ import annotations

from . import gen
from .model import Coll

DEST_PATHS = ["/", "/a", "/b", "/a/x", "/g/h", "/b/c/d", "/k"]
FILES = ["f0", "f1"]


def cooler_paths(fs, fid, only_complete=True):
    if fid not in fs.files:
        return []
    out = []
    for p, n in fs.coolers(fid).items():
        if only_complete and not isinstance(n.coll, Coll):
            continue
        out.append(p)
    return sorted(out)


def all_paths(fs, fid):
    if fid not in fs.files:
        return []
    return sorted(p for p, n in fs.walk(fid) if n is not None)


def existing_files(fs):
    return sorted(fs.files)


def _dest(rng, fs, fid, prefer_new=0.6):
    occupied = all_paths(fs, fid)
    if occupied and rng.random() > prefer_new:
        return rng.choice(occupied)
    return rng.choice(DEST_PATHS)


def _faulted(rng, op, kinds=("F1", "F2")):
    """Attach one fault placement to a create op."""
    pl = []
    if "F1" in kinds and op["form"] != "array":
        n = gen.nbins_of(op["layout"])
        pl += [p for p in gen.f1_placements(op) if not (p["sub"] == "tril" and n < 2)]
    if "F2" in kinds:
        pl += gen.f2_placements(op)
    if pl:
        op["fault"] = rng.choice(pl)
    return op


def gen_c15(rng, fs, i, cfg):
    """create(a|w)/cp/mv/ln(hard, soft, external)/plant/failed creates over
    one or two files."""
    files = existing_files(fs)
    have = [(f, p) for f in files for p in cooler_paths(fs, f)]
    r = rng.random()
    if not have or r < 0.30:
        fid = rng.choice(FILES)
        op = gen.gen_create(rng, maxpx=25, simple=rng.random() < 0.5) if rng.random() < 0.85 else \
            gen.gen_unordered(rng, maxpx=12, maxchunks=3)
        op.update(file=fid, path=_dest(rng, fs, fid), slash=rng.random() < 0.7,
                  mode="w" if rng.random() < 0.08 else "a")
        if rng.random() < 0.15 and cfg.get("faults", True):
            _faulted(rng, op)
        return op
    if r < 0.42:
        fid = rng.choice(files)
        what = rng.choice(["attr", "attr", "dataset", "group"])
        if what == "attr":
            paths = all_paths(fs, fid)
            return {"op": "plant", "what": "attr", "file": fid, "path": rng.choice(paths),
                    "name": rng.choice(["note", "lab", "version2"]),
                    "value": rng.choice([1, "x", 2.5, [1, 2, 3]])}
        return {"op": "plant", "what": what, "file": fid,
                "path": rng.choice(["/misc", "/a/extra", "/data/raw", "/zz"]),
                "value": [rng.randint(0, 99) for _ in range(rng.randint(1, 4))]}
    kind = rng.choice(["cp", "cp", "mv", "ln", "ln", "lns", "lns"])
    sf, sp = rng.choice(have)
    if rng.random() < 0.1:
        sp = rng.choice(all_paths(fs, sf))
    same = rng.random() < (0.75 if kind != "cp" else 0.5)
    df = sf if same else rng.choice([f for f in FILES + ["f2"] if f != sf])
    if kind == "mv":
        df = sf
    dp = _dest(rng, fs, df, prefer_new=0.85)
    op = {"op": "ln" if kind == "lns" else kind,
          "src": {"file": sf, "path": sp, "slash": rng.random() < 0.7},
          "dst": {"file": df, "path": dp, "slash": rng.random() < 0.7}}
    if kind == "lns":
        op["soft"] = True
    if kind == "cp" and not same and rng.random() < 0.15:
        op["overwrite"] = True
    return op


def gen_c01(rng, fs, i, cfg):
    """create (all input forms) >> neighbour operations, failed neighbours."""
    files = existing_files(fs)
    have = [(f, p) for f in files for p in cooler_paths(fs, f)]
    r = rng.random()
    if not have or r < 0.7:
        fid = rng.choice(FILES[:1] if rng.random() < 0.7 else FILES)
        op = gen.gen_create(rng, maxpx=cfg.get("maxpx", 60),
                            layout=gen.gen_layout(rng, cfg.get("maxchroms", 4), cfg.get("maxbins", 8)))
        op.update(file=fid, path=_dest(rng, fs, fid, prefer_new=0.8), slash=rng.random() < 0.7,
                  mode="w" if rng.random() < 0.05 else "a")
        if have and rng.random() < 0.2 and cfg.get("faults", True):
            _faulted(rng, op)
        return op
    return gen_c15(rng, fs, i, cfg)
