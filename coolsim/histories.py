"""Online history generators for the store engine.  A generator is called
before every operation with the PRNG and the current model state and returns
the next explicit operation record (or None to stop)."""
from __future__ import annotations

from . import gen
from .model import Coll

DEST_PATHS = ["/", "/a", "/b", "/a/x", "/g/h", "/b/c/d", "/k", "/r/1", "/r/01", "/r/001", "/r/10"]
FILES = ["f0", "f1"]


def cooler_paths(fs, fid, only_complete=True):
    if fid not in fs.files:
        return []
    out = []
    for p, n in fs.coolers(fid).items():
        if only_complete and not isinstance(n.coll, Coll):
            continue
        out.append(p)
    return sorted(out)


def all_paths(fs, fid):
    if fid not in fs.files:
        return []
    return sorted(p for p, n in fs.walk(fid) if n is not None)


def existing_files(fs):
    return sorted(fs.files)


def _dest(rng, fs, fid, prefer_new=0.6):
    occupied = all_paths(fs, fid)
    if occupied and rng.random() > prefer_new:
        return rng.choice(occupied)
    return rng.choice(DEST_PATHS)


def _faulted(rng, op, kinds=("F1", "F2")):
    """Attach one fault placement to a create op."""
    pl = []
    if "F1" in kinds and op["form"] != "array":
        n = gen.nbins_of(op["layout"])
        pl += [p for p in gen.f1_placements(op) if not (p["sub"] == "tril" and n < 2)]
    if "F2" in kinds:
        pl += gen.f2_placements(op, rng)
    if op["form"] in ("df", "dict") and not op.get("unordered"):
        # a call refused up front (a requested column the input does not have)
        pl += [{"kind": "F0", "sub": "badcolumn"}] * max(1, len(pl) // 8)
    if pl:
        op["fault"] = rng.choice(pl)
    return op


def gen_c15(rng, fs, i, cfg):
    """create(a|w)/cp/mv/ln(hard, soft, external)/plant/failed creates over
    one or two files."""
    files = existing_files(fs)
    have = [(f, p) for f in files for p in cooler_paths(fs, f)]
    r = rng.random()
    if not have or r < 0.30:
        fid = rng.choice(FILES)
        op = gen.gen_create(rng, maxpx=25, simple=rng.random() < 0.5) if rng.random() < 0.85 else \
            gen.gen_unordered(rng, maxpx=12, maxchunks=3)
        op.update(file=fid, path=_dest(rng, fs, fid), slash=rng.random() < 0.7,
                  mode="w" if rng.random() < 0.08 else "a")
        if rng.random() < 0.15 and cfg.get("faults", True):
            _faulted(rng, op)
        return op
    if r < 0.42:
        fid = rng.choice(files)
        what = rng.choice(["attr", "attr", "dataset", "group"])
        if what == "attr":
            paths = all_paths(fs, fid)
            return {"op": "plant", "what": "attr", "file": fid, "path": rng.choice(paths),
                    "name": rng.choice(["note", "lab", "version2"]),
                    "value": rng.choice([1, "x", 2.5, [1, 2, 3]])}
        return {"op": "plant", "what": what, "file": fid,
                "path": rng.choice(["/misc", "/a/extra", "/data/raw", "/zz"]),
                "value": [rng.randint(0, 99) for _ in range(rng.randint(1, 4))]}
    kind = rng.choice(["cp", "cp", "mv", "ln", "ln", "lns", "lns"])
    sf, sp = rng.choice(have)
    if rng.random() < 0.1:
        sp = rng.choice(all_paths(fs, sf))
    same = rng.random() < (0.75 if kind != "cp" else 0.5)
    df = sf if same else rng.choice([f for f in FILES + ["f2"] if f != sf])
    if kind == "mv":
        df = sf
    dp = _dest(rng, fs, df, prefer_new=0.85)
    op = {"op": "ln" if kind == "lns" else kind,
          "src": {"file": sf, "path": sp, "slash": rng.random() < 0.7},
          "dst": {"file": df, "path": dp, "slash": rng.random() < 0.7}}
    if kind == "lns":
        op["soft"] = True
    if kind == "cp" and not same and rng.random() < 0.15:
        op["overwrite"] = True
    if rng.random() < 0.2:
        op["cli"] = True
    return op


def gen_c01(rng, fs, i, cfg):
    """create (all input forms) >> neighbour operations, failed neighbours."""
    if _ctx(cfg).get("pending01"):
        return _ctx(cfg)["pending01"].pop(0)
    files = existing_files(fs)
    have = [(f, p) for f in files for p in cooler_paths(fs, f)]
    r = rng.random()
    if have and rng.random() < 0.07:
        # the collection at a URI is replaced by one of exactly the same shape (same table, same
        # number of pixels, other rows): whatever a process remembers per (path, size) is stale
        f_, p_ = rng.choice(have)
        node = fs.lookup(f_, p_)
        coll = node.coll if node is not None else None
        if isinstance(coll, Coll) and 2 <= len(coll.pixels) and coll.nbins >= 3:
            op = coll_to_create(coll, form=rng.choice(["df", "iter"]))
            n = coll.nbins
            cand = [(a, b) for a in range(n) for b in range(a if coll.symmetric else 0, n)]
            k = len(coll.pixels)
            if k < len(cand):
                new = sorted(rng.sample(cand, k))
                rec = op["chunks"][0]
                if new != list(zip(rec["bin1_id"], rec["bin2_id"])):
                    rec["bin1_id"] = [a for a, _ in new]
                    rec["bin2_id"] = [b for _, b in new]
                    op.update(file=f_, path=p_, mode="a", slash=rng.random() < 0.7)
                    return op
    if not have or r < 0.7:
        fid = rng.choice(FILES[:1] if rng.random() < 0.7 else FILES)
        op = gen.gen_create(rng, maxpx=cfg.get("maxpx", 60), big64=True,
                            layout=gen.gen_layout(rng, cfg.get("maxchroms", 4), cfg.get("maxbins", 8)))
        op.update(file=fid, path=_dest(rng, fs, fid, prefer_new=0.8), slash=rng.random() < 0.7,
                  mode="w" if rng.random() < 0.05 else "a")
        if have and rng.random() < 0.2 and cfg.get("faults", True):
            _faulted(rng, op)
        elif rng.random() < 0.05 and cfg.get("faults", True):
            # an open fails, possibly three or more times in a row: the creation may fail, it must
            # never report success with pixels missing
            op["fault"] = {"kind": "F4", "open": rng.randint(0, 4 + len(op["chunks"])), "width": rng.choice([1, 2, 3, 3, 4])}
            if rng.random() < 0.4:
                # ... or buffered data cannot be forced out after a chunk was written
                op["fault"] = {"kind": "F10", "flush": rng.randint(0, max(0, len(op["chunks"]) - 1))}
        elif op["form"] == "array" and rng.random() < 0.5:
            # one dense-array loader object, two creations (second destination, same matrix)
            import copy as _copy
            op["loader_object"] = "keep"
            op2 = _copy.deepcopy(op)
            op2["loader_object"] = "reuse"
            op2.update(file=fid, path="/again%d" % i, mode="a", fault=None)
            _ctx(cfg).setdefault("pending01", []).append(op2)
        elif len(op["layout"]["names"]) >= 2 and rng.random() < 0.06 and op["form"] != "array":
            # the caller keeps ONE bin-table object, creates, edits it in place (drops the last
            # chromosome) and creates again
            op["bins_object"] = "keep"
            import copy as _copy
            op2 = _copy.deepcopy(op)
            lay2 = op2["layout"]
            lay2["names"] = lay2["names"][:-1]
            lay2["edges"] = lay2["edges"][:-1]
            n2 = gen.nbins_of(lay2)
            for ch in op2["chunks"]:
                keep = [k for k in range(len(ch["bin1_id"])) if ch["bin1_id"][k] < n2 and ch["bin2_id"][k] < n2]
                for c in list(ch):
                    ch[c] = [ch[c][k] for k in keep]
            if op2.get("bin_extra"):
                op2["bin_extra"] = {k: v[:n2] for k, v in op2["bin_extra"].items()}
            op2["bins_object"] = "shrink"
            op2.update(file=fid, path="/shrunk%d" % i, mode="a", fault=None)
            _ctx(cfg).setdefault("pending01", []).append(op2)
        elif op["dtypes"].get("count") == "int32" and op["form"] in ("iter", "iterdict") and rng.random() < 0.12:
            sizes = [len(c["bin1_id"]) for c in op["chunks"]]
            cand = [k for k, n_ in enumerate(sizes) if n_ > 0]
            if cand:
                k = rng.choice(cand)
                # (same item size, other kind: uint32 holds values an int32 column cannot)
                op["wide_chunk"] = {"chunk": k, "dtype": rng.choice(["int64", "float64", "uint32", "uint32"]),
                                    "row": rng.randrange(sizes[k]), "value": 2**31 + rng.randint(0, 10**6)}
        return op
    return gen_c15(rng, fs, i, cfg)


# ===========================================================================
# helpers
# ===========================================================================
def coll_to_create(coll, form="iter", chunks=1):
    """A create op body that stores exactly the model collection `coll`."""
    names = list(coll.chromnames)
    edges = []
    b = coll.bins
    for c in range(len(names)):
        m = b["chrom"].values == c
        edges.append([int(x) for x in b["start"].values[m]] + [int(b["end"].values[m][-1])])
    px = coll.pixels
    rec = {k: [v.item() if hasattr(v, "item") else v for v in px[k].tolist()] for k in px.columns}
    return {
        "op": "create", "layout": {"names": names, "edges": edges, "kind": "derived"},
        "symmetric": coll.symmetric, "dtypes": {c: str(px[c].dtype) for c in coll.value_columns},
        "form": form, "chunks": [rec], "arraychunk": None, "h5opts": None, "metadata": None,
        "assembly": None, "bin_extra": None, "fault": None,
    }


def _ctx(cfg):
    return cfg.setdefault("_ctx", {})


def _same_layout_create(rng, cfg, layout, symmetric, colspec, maxpx, density=None):
    op = gen.gen_create(rng, layout=layout, maxpx=maxpx, symmetric=symmetric, colspec=dict(colspec),
                        density=density, simple=True)
    # normalise to one sorted record list, then choose form and chunking afresh
    cols = ["bin1_id", "bin2_id"] + list(op["dtypes"])
    rows = sorted(zip(*[sum((ch[c] for ch in op["chunks"]), []) for c in cols]), key=lambda t: (t[0], t[1]))
    rec = {c: [r[j] for r in rows] for j, c in enumerate(cols)}
    op["form"] = rng.choice(["df", "iter", "iterdict"])
    op["arraychunk"] = None
    if op["form"] == "df":
        op["chunks"] = [rec]
    else:
        sizes = gen.split_chunks(rng, len(rows))
        lo = 0
        op["chunks"] = []
        for s in sizes:
            op["chunks"].append(gen.slice_record(rec, lo, lo + s))
            lo += s
    return op


def perturb_layout(rng, lay):
    """A layout that differs from `lay` in exactly one respect."""
    import copy
    out = copy.deepcopy(lay)
    out["kind"] = "perturbed"
    how = rng.choice(["length", "name", "edge", "width", "order"])
    c = rng.randrange(len(out["edges"]))
    e = out["edges"][c]
    if how == "order" and len(out["names"]) >= 2:
        # the same chromosomes (names, lengths, bins) listed in another order: bin ids no longer
        # denote the same loci
        a, b = rng.sample(range(len(out["names"])), 2)
        out["names"][a], out["names"][b] = out["names"][b], out["names"][a]
        out["edges"][a], out["edges"][b] = out["edges"][b], out["edges"][a]
        return out
    if how == "length":
        # same number of bins, one chromosome one base longer or shorter
        if e[-1] - e[-2] > 1 and rng.random() < 0.5:
            e[-1] -= 1
        else:
            e[-1] += 1
    elif how == "name":
        out["names"][c] = out["names"][c] + "_alt"
    elif how == "edge" and len(e) > 2:
        k = rng.randrange(1, len(e) - 1)
        if e[k] - e[k - 1] > 1:
            e[k] -= 1
        elif e[k + 1] - e[k] > 1:
            e[k] += 1
        else:
            e[-1] += 1
    else:
        out["edges"] = [[2 * x for x in ee] for ee in out["edges"]]
    return out


# ===========================================================================
# C07: merge histories
# ===========================================================================
def gen_c07(rng, fs, i, cfg):
    ctx = _ctx(cfg)
    if "layout" not in ctx:
        ctx["layout"] = gen.gen_layout(rng, cfg.get("maxchroms", 3), cfg.get("maxbins", 6))
        ctx["symmetric"] = rng.random() < 0.7
        ctx["colspec"] = gen.gen_colspec(rng)
        ctx["ninputs"] = rng.randint(1, 4)
        ctx["big"] = rng.random() < 0.12
        ctx["inputs"] = []
        ctx["level1"] = []
    lay, symm, colspec = ctx["layout"], ctx["symmetric"], ctx["colspec"]
    if len(ctx["inputs"]) < ctx["ninputs"]:
        k = len(ctx["inputs"])
        spec = dict(colspec)
        if rng.random() < 0.2 and spec["count"] == "int32":
            spec["count"] = rng.choice(["int64", "int16"])
        op = _same_layout_create(rng, cfg, lay, symm, spec, cfg.get("maxpx", 40),
                                 density=rng.choice([None, None, "empty", "dense", "diag"]))
        if ctx["big"] and spec["count"] == "int32":
            # near-limit magnitudes on all pixels, or only in the later rows (an overflow that
            # first appears in a late merge epoch)
            late_only = rng.random() < 0.5
            nb_ = gen.nbins_of(lay)
            for ch in op["chunks"]:
                ch["count"] = [rng.randint(2**29, 2**30 + 2**29) if (not late_only or b1 >= nb_ // 2) else c_
                               for c_, b1 in zip(ch["count"], ch["bin1_id"])]
        r = rng.random()
        if r < 0.13:
            # an incompatible input of every kind: unrelated layout, other storage mode, or a
            # near miss (one length, one name, one inner edge, the bin width changed)
            rr = rng.random()
            if rr < 0.15:
                op = _same_layout_create(rng, cfg, gen.gen_layout(rng, 3, 6), symm, spec, 20)
            elif rr < 0.5:
                # the other storage mode over the same table; a square input without any
                # lower-triangle pixel half of the time (nothing but the mode attribute differs)
                op = _same_layout_create(rng, cfg, lay, not symm, spec, 20)
                if symm and rng.random() < 0.5:
                    for ch in op["chunks"]:
                        keep = [k for k in range(len(ch["bin1_id"])) if ch["bin1_id"][k] <= ch["bin2_id"][k]]
                        for c in list(ch):
                            ch[c] = [ch[c][k] for k in keep]
            else:
                op = _same_layout_create(rng, cfg, perturb_layout(rng, lay), symm, spec, 20)
        fid = rng.choice(["f0", "f1"])
        path = "/in%d" % k if rng.random() < 0.8 else "/"
        if path == "/" and fid in fs.files and fs.files[fid].coll is not None:
            path = "/in%d" % k
        op.update(file=fid, path=path, mode="a")
        ctx["inputs"].append((fid, path))
        return op
    have0 = [(f, p) for f in ("f0", "f1") for p in cooler_paths(fs, f)]
    have1 = [("f2", p) for p in cooler_paths(fs, "f2")]
    if not have0:
        return None
    if ctx.get("merged") and ctx["inputs"] and rng.random() < 0.10:
        # an input is rewritten in place (same table, other pixels) after it has been merged once:
        # later merges of the same URIs must see the new content
        fid, path = rng.choice(ctx["inputs"])
        node = fs.lookup(fid, path) if fid in fs.files else None
        if node is not None and isinstance(node.coll, Coll):
            spec = {c: str(node.coll.pixels[c].dtype) for c in node.coll.value_columns}
            op = _same_layout_create(rng, cfg, lay, node.coll.symmetric, spec, cfg.get("maxpx", 40),
                                     density=rng.choice([None, "dense", "diag"]))
            op.update(file=fid, path=path, mode="a")
            ctx["redo_merge"] = True
            return op
    if ctx.pop("redo_merge", None) and ctx.get("last_merge") is not None:
        lm = ctx["last_merge"]
        if all(fs.lookup(x["file"], x["path"]) is not None and x["file"] in fs.files for x in lm["inputs"]):
            import copy as _copy
            op = _copy.deepcopy(lm)
            op["fault"] = None
            op["mode"] = "a"
            if rng.random() < 0.5:
                op["path"] = "/again%d" % i
            return op
    level2 = have1 and rng.random() < 0.45
    pool = have0 + (have1 if level2 else [])
    k = rng.randint(1, min(4, len(pool)))
    ins = rng.sample(pool, k)
    if level2 and not any(f == "f2" for f, _ in ins):
        ins[0] = rng.choice(have1)
    if rng.random() < 0.15:
        ins.append(rng.choice(ins))  # the same input twice
    rng.shuffle(ins)
    fid = "f3" if level2 else "f2"
    total = sum(len(fs.lookup(f, p).coll.pixels) for f, p in ins)
    op = {"op": "merge", "file": fid, "path": rng.choice(["/", "/m%d" % i, "/m%d" % i, "/x/y%d" % i]),
          "mode": "a", "inputs": [{"file": f, "path": p} for f, p in ins],
          "mergebuf": rng.choice([1, 2, 3, 5, 8, max(1, total // 2), total + 1, 20_000_000]),
          "columns": None, "agg": None, "fault": None}
    extra = [c for c in colspec if c != "count"]
    if extra and rng.random() < 0.6:
        op["columns"] = ["count"] + extra if rng.random() < 0.7 else extra
    multi = bool(op["columns"]) and len(op["columns"]) >= 2
    if rng.random() < (0.4 if multi else 0.15):
        col = rng.choice(op["columns"] or ["count"])
        op["agg"] = {col: rng.choice(["max", "min", "count"])}
        if op["agg"][col] == "count":
            cdt = str(fs.lookup(*ins[0]).coll.pixels[col].dtype) if col in fs.lookup(*ins[0]).coll.pixels else "x"
            if not cdt.startswith("int"):
                op["agg"][col] = "max"       # a count is stored in the column's own type
    if rng.random() < (0.35 if multi else 0.15) and (not op["agg"] or op["columns"]):
        op["cli"] = True
        if fid not in fs.files and rng.random() < 0.5:
            op["mode"] = "w"
    elif rng.random() < 0.12:
        # an input (or output) open fails, possibly several times in a row: the merge may fail,
        # it must never return wrong data
        op["fault"] = {"kind": "F4", "open": rng.randint(0, 6 + 4 * len(ins)), "width": rng.choice([1, 1, 2, 3, 4])}
        if rng.random() < 0.4:
            # ... or an I/O error surfaces when a written chunk is flushed
            op["fault"] = {"kind": "F10", "flush": rng.randint(0, 5)}
    ctx["merged"] = True
    ctx["last_merge"] = op
    return op


# ===========================================================================
# C08: coarsen histories
# ===========================================================================
def gen_coarsen_op(rng, fs, src, i, prop="C08", allow_pool=True):
    sf, sp = src
    coll = fs.lookup(sf, sp).coll
    nnz = len(coll.pixels)
    same = rng.random() < 0.5
    fid = sf if same else rng.choice([f for f in ("f0", "f1", "f2") if f != sf])
    cli = rng.random() < 0.2
    mode = "a"
    if cli and not same and rng.random() < 0.5 and fid not in fs.files:
        mode = "w"
    op = {"op": "coarsen", "prop": prop, "src": {"file": sf, "path": sp, "slash": rng.random() < 0.7},
          "file": fid, "path": rng.choice(["/c%d" % i, "/z/c%d" % i, "/c%d" % i]), "mode": mode,
          "factor": rng.choice([2, 2, 3, 3, 4, 5, 6]),
          "chunksize": rng.choice([1, 2, 3, 5, 10, max(1, nnz // 2), max(1, nnz), nnz + 1, 10_000_000]),
          "nproc": rng.choice([1, 1, 2, 3, 4]) if allow_pool else 1, "columns": None, "agg": None,
          "cli": cli, "fault": None}
    if fid not in fs.files and rng.random() < 0.3:
        op["path"] = "/"
    if not cli and rng.random() < 0.15:
        op["lock_none"] = True
    extra = [c for c in coll.value_columns if c != "count"]
    if extra and rng.random() < 0.6:
        op["columns"] = ["count"] + extra
        if rng.random() < 0.4:
            fl = str(coll.pixels[extra[0]].dtype).startswith("float")
            op["agg"] = {extra[0]: rng.choice(["max", "min", "count"] + (["np.std", "np.var"] if fl and not cli else []))}
    elif str(coll.pixels["count"].dtype).startswith("int") and rng.random() < 0.12 and "count" in coll.pixels:
        op["agg"] = {"count": "count"}
        if cli:
            op["columns"] = ["count"]
    if not cli and rng.random() < 0.08:
        # a reader task runs out of memory: the operation may fail, never return wrong aggregates
        op["fault"] = {"kind": "F6", "where": "aggregate", "task": rng.randint(0, 6), "exc": "MemoryError"}
    return op


def gen_c08(rng, fs, i, cfg):
    ctx = _ctx(cfg)
    have = [(f, p) for f in sorted(fs.files) for p in cooler_paths(fs, f)]
    nsrc = ctx.setdefault("nsrc", rng.randint(1, 2))
    if len(ctx.setdefault("srcs", [])) < nsrc:
        kind = rng.choice(["fixed", "fixed", "fixed-exact", "variable", "variable", "longlast", "onebin",
                           "mixed-one", "fixed1"])
        if ctx["srcs"] and rng.random() < 0.6:
            lay = ctx["layout"]
        else:
            lay = gen.gen_layout(rng, cfg.get("maxchroms", 4), cfg.get("maxbins", 9), kind)
            ctx["layout"] = lay
        if "bigsrc" not in ctx:
            # now and then a source with enough pixels for > 100 one-pixel spans (long-lived
            # pools: worker recycling, many batches)
            ctx["bigsrc"] = rng.random() < 0.08
            if ctx["bigsrc"]:
                # many rows rather than many pixels: a span never splits a coarse row, so the
                # number of tasks is bounded by the number of coarse rows
                lay = gen.gen_layout(rng, 2, 120, rng.choice(["fixed", "variable"]))
                while gen.nbins_of(lay) < 150:
                    lay = gen.gen_layout(rng, 2, 120, rng.choice(["fixed", "variable"]))
                ctx["layout"] = lay
        op = _same_layout_create(rng, cfg, lay, ctx.setdefault("symmetric", rng.random() < 0.7),
                                 ctx.setdefault("colspec", gen.gen_colspec(rng)),
                                 500 if ctx["bigsrc"] else cfg.get("maxpx", 60),
                                 density="diag" if ctx["bigsrc"] else
                                 rng.choice([None, "dense", "dense", "sparse", "row", "lastrow"]))
        for ch in op["chunks"]:
            for col, dt in op["dtypes"].items():
                if "int" in dt:
                    ch[col] = [min(v, 1000) for v in ch[col]]
        if ctx.setdefault("big", rng.random() < 0.08) and op["dtypes"].get("count") == "int32" and not ctx["bigsrc"]:
            # counts near the int32 limit: a block sum that does not fit must be refused, never stored
            # wrapped or clamped (sums of one pixel still fit, so some coarse pixels are fine)
            for ch in op["chunks"]:
                ch["count"] = [rng.randint(2**29, 2**30 + 2**29) if rng.random() < 0.6 else c_ for c_ in ch["count"]]
        fid = rng.choice(["f0", "f1"])
        path = "/s%d" % len(ctx["srcs"]) if rng.random() < 0.7 else "/"
        if path == "/" and fid in fs.files:
            path = "/s%d" % len(ctx["srcs"])
        op.update(file=fid, path=path, mode="a")
        ctx["srcs"].append((fid, path))
        return op
    if not have:
        return None
    r = rng.random()
    if r > 0.90 and ctx["srcs"]:
        # the source is replaced by another matrix over another table of the same size:
        # a later coarsening of the same URI must see the new one
        import copy as _copy
        fid, path = rng.choice(ctx["srcs"])
        node = fs.lookup(fid, path) if fid in fs.files else None
        if node is not None and isinstance(node.coll, Coll):
            rr = rng.random()
            if rr < 0.45:
                lay2 = perturb_layout(rng, ctx["layout"])
            elif rr < 0.75:
                # a wholly different table (other chromosome count, bin counts, widths)
                lay2 = gen.gen_layout(rng, cfg.get("maxchroms", 4), cfg.get("maxbins", 9),
                                      rng.choice(["fixed", "variable", "fixed-exact"]))
            else:
                lay2 = ctx["layout"]
            op = _same_layout_create(rng, cfg, lay2, ctx["symmetric"], ctx["colspec"], cfg.get("maxpx", 60))
            for ch in op["chunks"]:
                for col, dt in op["dtypes"].items():
                    if "int" in dt:
                        ch[col] = [min(v, 1000) for v in ch[col]]
            op.update(file=fid, path=path, mode="a")
            if ctx.get("last_coarsen", {}).get((fid, path)):
                # ... and the next operation repeats an earlier coarsening of that very URI (same
                # spelling, same factor) with a pool: anything remembered per (URI, factor) in the
                # parent or inherited by forked workers is stale now
                ctx["redo"] = (fid, path)
            return op
    if ctx.get("redo"):
        fid, path = ctx.pop("redo")
        node = fs.lookup(fid, path) if fid in fs.files else None
        if node is not None and isinstance(node.coll, Coll):
            import copy as _copy
            op = _copy.deepcopy(ctx["last_coarsen"][(fid, path)])
            op["path"] = "/r%d" % i
            op["nproc"] = rng.choice([2, 3])
            op["cli"] = False
            op["mode"] = "a"
            op["fault"] = None
            op["columns"] = None
            op["agg"] = None
            return op
    if r < 0.15 and len(have) >= 2:
        # merge/coarsen interleaving
        ins = rng.sample(have, 2)
        out = [f for f in ("f2", "f3", "f4") if all(f != x[0] for x in ins)]
        return {"op": "merge", "file": rng.choice(out), "path": "/m%d" % i, "mode": "a",
                "inputs": [{"file": f, "path": p} for f, p in ins], "mergebuf": rng.choice([2, 7, 10**6]),
                "columns": None, "agg": None, "fault": None}
    if rng.random() < 0.05:
        f_, p_ = rng.choice(have)
        if fs.lookup(f_, p_).coll.symmetric:
            return {"op": "dropmode", "file": f_, "path": p_}
    op = gen_coarsen_op(rng, fs, rng.choice(have), i)
    if ctx.get("bigsrc") and rng.random() < 0.7:
        op["chunksize"] = 1
        op["nproc"] = 2
        op["factor"] = 2
        op["cli"] = False
    ctx.setdefault("last_coarsen", {})[(op["src"]["file"], op["src"]["path"])] = op
    return op


# ===========================================================================
# C09: zoomify
# ===========================================================================
def gen_c09(rng, fs, i, cfg):
    from .model import coarsen_model

    ctx = _ctx(cfg)
    if "stage" not in ctx:
        ctx["stage"] = 0
        ctx["variable"] = rng.random() < 0.2
        ctx["two"] = rng.random() < 0.35 and not ctx["variable"]
    if ctx["stage"] == 0:
        ctx["stage"] = 1
        kind = "variable" if ctx["variable"] else rng.choice(["fixed", "fixed-exact", "fixed", "mixed-one"])
        lay = gen.gen_layout(rng, cfg.get("maxchroms", 3), cfg.get("maxbins", 12), kind)
        if ctx["two"]:
            # the common ancestor has width b0; the two bases are its coarsenings
            pass
        op = _same_layout_create(rng, cfg, lay, rng.random() < 0.75, gen.gen_colspec(rng, allow_extra=True),
                                 cfg.get("maxpx", 80), density=rng.choice(["dense", "sparse", None, "row"]))
        for ch in op["chunks"]:
            for col, dt in op["dtypes"].items():
                if "int" in dt:
                    ch[col] = [min(v, 1000) for v in ch[col]]
        op.update(file="f0", path=rng.choice(["/", "/base", "/a/b"]), mode="a")
        ctx["anc"] = ("f0", op["path"])
        return op
    if ctx["stage"] == 1:
        ctx["stage"] = 2
        if ctx["two"]:
            anc = fs.lookup(*ctx["anc"])
            if anc is None or not isinstance(anc.coll, Coll):
                return None
            b, _ = anc.coll.binsize()
            if b is None:
                ctx["two"] = False
            else:
                m1, m2 = rng.choice([(2, 3), (1, 3), (2, 5), (1, 2), (3, 4)])
                ctx["bases"] = []
                ops = []
                for m, f in ((m1, "f1"), (m2, "f3")):
                    if m == 1:
                        ctx["bases"].append(ctx["anc"])
                        continue
                    c2, ok = coarsen_model(anc.coll, m, anc.coll.value_columns)
                    if c2.binsize()[0] is None:
                        # degenerate: the coarsened table has no inferable width
                        ctx["two"] = False
                        ops = []
                        break
                    op = coll_to_create(c2)
                    if rng.random() < 0.4 and op["dtypes"].get("count") == "int32":
                        # bases of different value dtypes (each level inherits its own base's dtype)
                        op["dtypes"]["count"] = rng.choice(["int64", "float64"])
                        if op["dtypes"]["count"] == "float64":
                            # same values (the bases must stay consistent), another type
                            for ch in op["chunks"]:
                                ch["count"] = [float(v) for v in ch["count"]]
                    op.update(file=f, path="/", mode="a")
                    ops.append(op)
                    ctx["bases"].append((f, "/"))
                ctx["pending"] = ops
        if not ctx["two"]:
            ctx["bases"] = [ctx["anc"]]
            ctx["pending"] = []
    if ctx.get("pending"):
        return ctx["pending"].pop(0)
    if ctx["stage"] == 2:
        ctx["stage"] = 3
        if "bases" not in ctx:
            return None
        bases = list(ctx["bases"])
        rng.shuffle(bases)
        res = []
        for f, p in bases:
            n = fs.lookup(f, p)
            if n is None or not isinstance(n.coll, Coll):
                return None
            b, _ = n.coll.binsize()
            res.append(1 if b is None else b)
        mults = rng.sample([1, 2, 3, 4, 5, 6, 8, 10, 12], rng.randint(1, 4))
        targets = sorted({rng.choice(res) * m for m in mults})
        if rng.random() < 0.5:
            targets = [t for t in targets if t not in res] or targets
        if rng.random() < 0.12 and 1 not in res:
            bad = max(res) * 2 + 1
            while any(bad % b == 0 for b in res):
                bad += 1
            if len(res) >= 2 and rng.random() < 0.6:
                # a multiple of the bases' common divisor that is a multiple of NO base (bases 4 and 6:
                # 10, 14, 22): not derivable either
                import math as _math
                g = 0
                for b in res:
                    g = _math.gcd(g, int(b))
                near = [g * k for k in range(2, 60) if g * k >= min(res) and all((g * k) % b for b in res)]
                if near:
                    bad = rng.choice(near[:6])
            targets.append(bad)
        elif rng.random() < 0.08 and min(res) > 1:
            # a non-derivable member finer than every base
            targets.append(rng.randint(1, min(res) - 1))
        rng.shuffle(targets)
        nnz = max(len(fs.lookup(f, p).coll.pixels) for f, p in bases)
        cols = None
        c0 = fs.lookup(*bases[0]).coll
        extra = [c for c in c0.value_columns if c != "count"]
        if extra and rng.random() < 0.5 and all(set(extra) <= set(fs.lookup(f, p).coll.value_columns) for f, p in bases):
            cols = ["count"] + extra
        zop = {"op": "zoomify", "file": "f2", "bases": [{"file": f, "path": p} for f, p in bases],
               "resolutions": targets, "chunksize": rng.choice([1, 2, 3, 7, max(1, nnz // 2), nnz + 1, 10**7]),
               "nproc": rng.choice([1, 2, 2, 3, 4]), "cli": rng.random() < 0.25 and cols is None,
               "columns": cols, "as_list": rng.random() < 0.5}
        if rng.random() < 0.12:
            # the run stops somewhere: the file must not pass for a complete multires file
            zop["fault"] = {"kind": "F4", "open": rng.randint(0, 40), "width": 1}
        if cols and rng.random() < 0.5 and len(bases) == 1:
            # (with two bases a non-additive aggregate depends on which base a chain starts from)
            zop["agg"] = {extra[0]: rng.choice(["max", "min"])}
            zop["cli"] = rng.random() < 0.5
            zop["fields_order"] = rng.sample(cols, len(cols))
        if not zop["cli"] and rng.random() < 0.3:
            zop["res_object"] = "keep"
        ctx["zop"] = zop
        return zop
    if ctx["stage"] == 3 and ctx.get("zop") is not None and ctx["zop"].get("res_object") == "keep" \
            and not ctx["zop"].get("fault") and rng.random() < 0.6:
        # the caller hands the SAME list object of resolutions to a second zoomify over a base of
        # another width (a coarsening of the ancestor) in another file
        ctx["stage"] = 4
        anc = fs.lookup(*ctx["anc"])
        if anc is not None and isinstance(anc.coll, Coll) and anc.coll.binsize()[0] is not None:
            c2, ok = coarsen_model(anc.coll, rng.choice([2, 3]))
            if ok and c2.binsize()[0] is not None:
                op = coll_to_create(c2)
                op.update(file="f4", path="/", mode="a")
                z2 = dict(ctx["zop"], bases=[{"file": "f4", "path": "/"}], file="f5", res_object="reuse",
                          nproc=rng.choice([1, 2]), columns=None, agg=None, fields_order=None)
                ctx["pending"] = [z2]
                return op
    if ctx["stage"] == 3 and not ctx.get("two") and rng.random() < 0.35 and ctx.get("zop") is not None \
            and not ctx["zop"].get("fault") and not ctx["zop"].get("expect_refusal_same_file"):
        # the same process zoomifies ANOTHER matrix (other table of the same size) into the same
        # output path
        ctx["stage"] = 4
        anc = fs.lookup(*ctx["anc"])
        if anc is not None and isinstance(anc.coll, Coll) and anc.coll.binsize()[0] is not None:
            f_, p_ = ctx["anc"]
            names = list(anc.coll.chromnames)
            if len(names) >= 2:
                import copy as _copy
                # swap the extents of two chromosomes: same number of bins in total, other table
                c0 = anc.coll
                b = c0.bins
                edges = []
                for c in range(len(names)):
                    m_ = b["chrom"].values == c
                    edges.append([int(x) for x in b["start"].values[m_]] + [int(b["end"].values[m_][-1])])
                edges[0], edges[-1] = edges[-1], edges[0]
                lay2 = {"names": names, "edges": edges, "kind": "swapped"}
                if edges[0] != edges[-1]:
                    op = _same_layout_create(rng, cfg, lay2, c0.symmetric, {c: str(c0.pixels[c].dtype) for c in c0.value_columns},
                                             cfg.get("maxpx", 80), density="dense")
                    for ch in op["chunks"]:
                        for col, dt in op["dtypes"].items():
                            if "int" in dt:
                                ch[col] = [min(v, 1000) for v in ch[col]]
                    op.update(file=f_, path=p_, mode="a")
                    z2 = dict(ctx["zop"])
                    z2["nproc"] = rng.choice([1, 2])
                    ctx["pending"] = [z2]
                    return op
    return None
    return None


# ===========================================================================
# C06: unordered ingestion
# ===========================================================================
def gen_c06(rng, fs, i, cfg):
    ctx = _ctx(cfg)
    have = [(f, p) for f in ("f0", "f1") for p in cooler_paths(fs, f)]
    if have and rng.random() < 0.08:
        # a merge with a custom aggregation earlier in the same process must not influence
        # how later ingestions combine repeated pixels
        f_, p_ = rng.choice(have)
        cols = fs.lookup(f_, p_).coll.value_columns
        return {"op": "merge", "file": "f3", "path": "/agg%d" % i, "mode": "a",
                "inputs": [{"file": f_, "path": p_}, {"file": f_, "path": p_}], "mergebuf": rng.choice([2, 10**6]),
                "columns": list(cols) if cols != ["count"] else None,
                "agg": {rng.choice(cols): rng.choice(["max", "min"])}, "fault": None}
    if ctx.get("last") is not None and rng.random() < 0.5:
        # the same record multiset, partitioned and ordered differently
        base = ctx["last"]
        op = {k: (v if k != "chunks" else None) for k, v in base.items()}
        recs = []
        cols = list(base["chunks"][0].keys()) if base["chunks"] else ["bin1_id", "bin2_id", "count"]
        for ch in base["chunks"]:
            n = len(ch["bin1_id"])
            recs += [tuple(ch[c][r] for c in cols) for r in range(n)]
        rng.shuffle(recs)
        k = rng.randint(1, rng.choice([4, 6, 11]))
        parts = [[] for _ in range(k)]
        # with the duplicate check switched off a chunk may hold the same pixel several times
        # (they are summed like repeats across chunks); a chunk may then serve a merge epoch alone
        # NOT generated (nodup stays False): duplicates inside a chunk are invalid input (rejected by
        # the default validation, C13); with the validation switched off the unchanged tree itself
        # fails as soon as a chunk holds more rows than there are distinct pixels (the temporary
        # cooler's columns cannot grow beyond n(n+1)/2) - C06 promises nothing there (DESIGN 11.7)
        nodup = False
        # otherwise a pixel may appear once per chunk only (dupcheck): distribute greedily
        for rec in recs:
            order = list(range(k))
            rng.shuffle(order)
            if nodup:
                parts[order[0] if rng.random() < 0.5 else 0].append(rec)
                continue
            for j in order:
                if not any(x[0] == rec[0] and x[1] == rec[1] for x in parts[j]):
                    parts[j].append(rec)
                    break
            else:
                parts.append([rec])
        chunks = []
        for part in parts:
            if not op["unordered"]["ensure_sorted"]:
                part = sorted(part, key=lambda t: (t[0], t[1]))
            chunks.append({c: [t[j] for t in part] for j, c in enumerate(cols)})
        op["chunks"] = chunks
        total = len(recs)
        op["unordered"] = dict(op["unordered"], mergebuf=rng.choice([1, 2, 3, 5, max(1, total // 2), total + 1, 20_000_000]),
                               max_merge=rng.choice([1, 2, 3, 4, 200]))
        op["unordered"].pop("dupcheck", None)
        if nodup:
            op["unordered"]["dupcheck"] = False
        op["form"] = rng.choice(["iter", "iterdict"])
    else:
        r0 = rng.random()
        if r0 < 0.12:
            return gen_cliload(rng, fs, i, cfg)
        if r0 < 0.22:
            return gen_clipairs(rng, fs, i, cfg)
        op = gen.gen_unordered(rng, gen.gen_layout(rng, cfg.get("maxchroms", 4), cfg.get("maxbins", 8)),
                               maxpx=cfg.get("maxpx", 40), maxchunks=rng.choice([3, 6, 8, 11]))
        ctx["last"] = op
    op = dict(op)
    fid = rng.choice(["f0", "f0", "f1"])
    op.update(file=fid, path=_dest(rng, fs, fid, prefer_new=0.8), mode="w" if rng.random() < 0.1 else "a",
              slash=rng.random() < 0.7, fault=None)
    if rng.random() < 0.06 and cfg.get("faults", True):
        # an I/O error surfaces at a flush of a temporary chunk file or of the final pass: the
        # ingestion may fail, it must never report success over wrong sums
        op["fault"] = {"kind": "F10", "flush": rng.randint(0, 2 * len(op["chunks"]) + 2)}
    return op


# ===========================================================================
# C17: single-cell files
# ===========================================================================
CELL_NAMES = ["cell1", "cell2", "cell10", "a.b", "x-1", "grp/c3", "Z", "9", "cell_0"]


def gen_scool(rng, cfg, fault=False):
    lay = gen.gen_layout(rng, cfg.get("maxchroms", 3), cfg.get("maxbins", 6))
    n = gen.nbins_of(lay)
    symm = rng.random() < 0.8
    colspec = gen.gen_colspec(rng)
    ncell = rng.randint(1, 5)
    names = rng.sample(CELL_NAMES, ncell)
    per_cell = rng.random() < 0.4
    cells = {}
    # "meeting" cells: each cell's table begins with the very pixel some other cell's table ends with
    # (several one-pixel cells holding the same pixel, the others starting with it): perfectly valid,
    # whatever is remembered from one cell's stream must not be held against the next
    meet = ncell >= 2 and rng.random() < 0.15
    for nm in names:
        support = gen.gen_support(rng, n, symm, rng.choice([None, "empty", "dense", "diag", "sparse"]), 30)
        if meet:
            support = [(0, 0)] if rng.random() < 0.5 else sorted(set(support) | {(0, 0)})
        rec = gen.pixels_record(support, gen.gen_values(rng, len(support), colspec))
        form = rng.choice(["df", "iter", "iterdict"])
        sizes = [len(support)] if form == "df" else gen.split_chunks(rng, len(support))
        chunks, lo = [], 0
        for s in sizes:
            chunks.append(gen.slice_record(rec, lo, lo + s))
            lo += s
        cells[nm] = {"chunks": chunks, "form": form,
                     "bin_extra": ({"w": [gen.dyadic(rng, 0, 2) for _ in range(n)]}
                                   if per_cell and rng.random() < 0.7 else None)}
    insert = list(names)
    rng.shuffle(insert)
    op = {"op": "scool", "layout": lay, "symmetric": symm, "dtypes": colspec, "cells": cells,
          "insert_order": insert, "bins_reversed": rng.random() < 0.3,
          "bins_index": {nm: rng.choice(["default", "default", "offset", "permuted"]) for nm in names},
          "bins_as_dict": per_cell, "metadata": rng.choice(gen.METADATA), "assembly": rng.choice(gen.ASSEMBLIES),
          "fault": None}
    if fault:
        order = sorted(cells)
        cell = rng.choice(order)
        body = {"chunks": cells[cell]["chunks"], "symmetric": symm, "form": "iter"}
        pl = [p for p in gen.f1_placements(body) if not (p["sub"] == "tril" and n < 2)] + gen.f2_placements(body)
        f = dict(rng.choice(pl))
        f["cell"] = cell
        op["fault"] = f
        if rng.random() < 0.2:
            # an I/O error surfaces when a chunk of some cell is flushed: the file may be left
            # incomplete, no cell may hold a chunk twice
            op["fault"] = {"kind": "F10", "flush": rng.randint(0, 2 * len(cells))}
    return op


def gen_c17(rng, fs, i, cfg):
    ctx = _ctx(cfg)
    if ctx.get("pending17"):
        return ctx["pending17"].pop(0)
    r = rng.random()
    if rng.random() < 0.07:
        # one bin-table object for two single-cell files, edited in place in between
        import copy as _copy
        op = gen_scool(rng, cfg, fault=False)
        if len(op["layout"]["names"]) >= 2 and not op["bins_as_dict"]:
            op.update(file="f1", mode="w", bins_object="keep")
            op2 = _copy.deepcopy(op)
            lay2 = op2["layout"]
            lay2["names"] = lay2["names"][:-1]
            lay2["edges"] = lay2["edges"][:-1]
            n2 = gen.nbins_of(lay2)
            for c in op2["cells"].values():
                for ch in c["chunks"]:
                    keep = [k for k in range(len(ch["bin1_id"])) if ch["bin1_id"][k] < n2 and ch["bin2_id"][k] < n2]
                    for col in list(ch):
                        ch[col] = [ch[col][k] for k in keep]
            op2.update(file="f2", mode="w", bins_object="shrink")
            ctx["pending17"] = [op2]
            ctx["made"] = True
            return op
    if i == 0 and rng.random() < 0.3:
        # a neighbour that must survive an appended scool
        op = gen.gen_create(rng, maxpx=20, simple=True)
        op.update(file="f0", path="/other", mode="a")
        return op
    if not ctx.get("made") or r < 0.5:
        fid = "f0" if not ctx.get("made") else rng.choice(["f0", "f1"])
        op = gen_scool(rng, cfg, fault=cfg.get("faults", True) and rng.random() < 0.25)
        op.update(file=fid, mode="a" if (fid in fs.files and not ctx.get("made")) else "w")
        if ctx.get("made") and fid in fs.files and fs.files[fid].tag == "scool" and rng.random() < 0.5 \
                and not op.get("fault"):
            # append more cells to an existing single-cell file, over a table of the same shape
            op["mode"] = "a"
            prev = ctx.get("last_scool")
            if prev is not None and rng.random() < 0.7:
                import copy as _copy
                lay2 = _copy.deepcopy(prev["layout"])
                e = lay2["edges"][rng.randrange(len(lay2["edges"]))]
                e[-1] += 1                      # same nbins/nchroms/width, another extent
                n2 = gen.nbins_of(lay2)
                if n2 == gen.nbins_of(op["layout"]) or True:
                    op["layout"] = lay2
                    for nm, c in op["cells"].items():
                        sup = gen.gen_support(rng, n2, op["symmetric"], None, 20)
                        rec = gen.pixels_record(sup, gen.gen_values(rng, len(sup), op["dtypes"]))
                        c["chunks"] = [rec]
                        c["form"] = "df"
                        if c.get("bin_extra"):
                            c["bin_extra"] = {"w": [gen.dyadic(rng, 0, 2) for _ in range(n2)]}
        elif ctx.get("made") and ctx.get("last_scool") is not None and rng.random() < 0.35 and not op.get("fault"):
            # another single-cell file written by the same process over the SAME chromosomes (names and
            # lengths) cut into ANOTHER number of bins: one bin split in two, or two bins joined
            import copy as _copy
            lay2 = _copy.deepcopy(ctx["last_scool"]["layout"])
            lay2["kind"] = "variable"
            for _try in range(4):
                e = lay2["edges"][rng.randrange(len(lay2["edges"]))]
                k = rng.randrange(len(e) - 1)
                if e[k + 1] - e[k] >= 2 and rng.random() < 0.6:
                    e.insert(k + 1, e[k] + (e[k + 1] - e[k]) // 2)
                elif len(e) > 2:
                    del e[rng.randrange(1, len(e) - 1)]
            n2 = gen.nbins_of(lay2)
            op["layout"] = lay2
            for nm, c in op["cells"].items():
                sup = gen.gen_support(rng, n2, op["symmetric"], None, 20)
                rec = gen.pixels_record(sup, gen.gen_values(rng, len(sup), op["dtypes"]))
                c["chunks"] = [rec]
                c["form"] = "df"
                if c.get("bin_extra"):
                    c["bin_extra"] = {"w": [gen.dyadic(rng, 0, 2) for _ in range(n2)]}
        ctx["made"] = True
        if not op.get("fault"):
            ctx["last_scool"] = op
        return op
    # later append operations on the file; every cell must still read back
    fid = rng.choice([f for f in sorted(fs.files)] or ["f0"])
    rr = rng.random()
    if rr < 0.5:
        op = gen.gen_create(rng, maxpx=20, simple=True)
        op.update(file=fid, path=rng.choice(["/extra", "/more/x", "/cells_backup"]), mode="a")
        if rng.random() < 0.3 and cfg.get("faults", True):
            _faulted(rng, op)
        return op
    have = cooler_paths(fs, fid)
    if have:
        return {"op": "cp", "src": {"file": fid, "path": rng.choice(have)},
                "dst": {"file": rng.choice(["f2", fid]), "path": "/copy%d" % i}}
    return {"op": "restart"}


# ===========================================================================
# C18: renaming
# ===========================================================================
NEW_NAMES = ["chr1", "chromosome_number_one", "I", "x", "1", "c1", "c2", "chrX", "scaffold-000123", "A" * 40]


def gen_c18(rng, fs, i, cfg):
    ctx = _ctx(cfg)
    have = [(f, p) for f in sorted(fs.files) for p in cooler_paths(fs, f)]
    if ctx.get("pending18"):
        return ctx["pending18"].pop(0)
    if len(have) >= 2 and rng.random() < 0.08:
        # one rename map (one dict object) applied to two coolers in a row; it names
        # chromosomes that the first one does not have
        (fa, pa), (fb, pb) = rng.sample(have, 2)
        na, nb = fs.lookup(fa, pa).coll.chromnames, fs.lookup(fb, pb).coll.chromnames
        only_b = [n for n in nb if n not in na]
        if only_b:
            pool = [n for n in NEW_NAMES if n not in na and n not in nb]
            rng.shuffle(pool)
            m = {}
            for n in only_b[:2] + rng.sample(na, 1):
                if pool:
                    m[n] = pool.pop()
            if len(set(m.values())) == len(m) and not (set(m.values()) & (set(na) | set(nb))):
                ctx["pending18"] = [{"op": "rename", "file": fb, "path": pb, "map": dict(m), "held": False,
                                     "reuse_map": True}]
                return {"op": "rename", "file": fa, "path": pa, "map": dict(m), "held": False}
    if not have or (len(have) < 2 and rng.random() < 0.3):
        op = gen.gen_create(rng, layout=gen.gen_layout(rng, 4, 5), maxpx=25, simple=rng.random() < 0.6)
        op.update(file=rng.choice(["f0", "f1"]), path=rng.choice(["/", "/a", "/b/c"]), mode="a")
        return op
    r = rng.random()
    f, p = rng.choice(have)
    coll = fs.lookup(f, p).coll
    if r < 0.06 and len(coll.chromnames) >= 2:
        # a map that only permutes existing names (swap or cycle): no new name appears
        names = coll.chromnames
        k = rng.randint(2, min(3, len(names)))
        sub = rng.sample(names, k)
        m = {sub[j]: sub[(j + 1) % k] for j in range(k)}
        return {"op": "rename", "file": f, "path": p, "map": m, "held": rng.random() < 0.5,
                "slash": rng.random() < 0.7}
    if r < 0.09:
        # a rename that must fail (a name that cannot be stored): the collection stays as it was
        return {"op": "rename", "file": f, "path": p, "map": {rng.choice(coll.chromnames): "chr\u00e9\u4e2d"},
                "held": rng.random() < 0.5, "expect_failure": True}
    if r < 0.5:
        names = coll.chromnames
        sub = rng.sample(names, rng.randint(1, len(names)))
        m = {}
        pool = [n for n in NEW_NAMES if n not in names]
        rng.shuffle(pool)
        for n in sub:
            rr = rng.random()
            if rr < 0.15 and len(sub) >= 2:
                m[n] = sub[(sub.index(n) + 1) % len(sub)]  # rotate names among themselves
            elif rr < 0.25 and ctx.get("orig", {}).get((f, p, n)):
                m[n] = ctx["orig"][(f, p, n)]              # rename back
            elif pool:
                m[n] = pool.pop()
        if rng.random() < 0.2:
            m["not-a-chromosome"] = "whatever"
        for k_, v_ in m.items():
            ctx.setdefault("orig", {})[(f, p, v_)] = k_
        return {"op": "rename", "file": f, "path": p, "map": m, "held": rng.random() < 0.6,
                "slash": rng.random() < 0.7}
    if r < 0.58:
        return {"op": "hold", "file": f, "path": p}
    if r < 0.64:
        return {"op": "intify", "file": f, "path": p}
    if r < 0.70:
        return {"op": "restart"}
    if r < 0.85:
        kind = rng.choice(["cp", "ln", "lns"])
        df = f if kind != "cp" or rng.random() < 0.5 else rng.choice(["f0", "f1", "f2"])
        op = {"op": "ln" if kind == "lns" else kind, "src": {"file": f, "path": p},
              "dst": {"file": df, "path": rng.choice(["/k%d" % i, "/n/l%d" % i])}}
        if kind == "lns":
            op["soft"] = True
        return op
    if r < 0.93:
        return gen_coarsen_op(rng, fs, (f, p), i, prop="C08", allow_pool=False)
    same = [(f2, p2) for f2, p2 in have if fs.lookup(f2, p2).coll.chromnames == coll.chromnames]
    ins = rng.sample(same, min(len(same), 2))
    out = [x for x in ("f2", "f3", "f4") if all(x != y[0] for y in ins)]
    return {"op": "merge", "file": rng.choice(out), "path": "/m%d" % i, "mode": "a",
            "inputs": [{"file": a, "path": b} for a, b in ins], "mergebuf": 5, "columns": None, "agg": None,
            "fault": None}


# ===========================================================================
# text loading (cooler load) and the C02 mixture
# ===========================================================================
def gen_cliload(rng, fs, i, cfg):
    kind = rng.choice(["fixed", "fixed-exact", "fixed1", "variable", "longlast", "onebin", "mixed-one"])
    lay = gen.gen_layout(rng, cfg.get("maxchroms", 4), cfg.get("maxbins", 8), kind)
    n = gen.nbins_of(lay)
    symm = rng.random() < 0.7
    support = gen.gen_support(rng, n, symm, None, cfg.get("maxpx", 40))
    vals = [rng.randint(1, 50) for _ in support]
    perm = list(range(len(support)))
    rng.shuffle(perm)
    rec = {"bin1_id": [support[p][0] for p in perm], "bin2_id": [support[p][1] for p in perm],
           "count": [vals[p] for p in perm]}
    total = len(support)
    fid = rng.choice(["f0", "f1"])
    op = {"op": "cliload", "layout": lay, "symmetric": symm, "records": rec, "file": fid,
          "path": _dest(rng, fs, fid, prefer_new=0.85), "mode": "a" if rng.random() < 0.85 else "w",
          "chunksize": rng.choice([1, 2, 3, 5, max(1, total // 2), total + 1, 10**6]),
          "max_merge": rng.choice([1, 2, 3, 200]), "mergebuf": rng.choice([None, 1, 3, 10**6]),
          "binspec": "bed"}
    if symm and rng.random() < 0.3:
        op["duplex"] = rng.choice(["lower-first", "upper-first", "mixed"])
    if kind in ("fixed", "fixed-exact", "fixed1", "mixed-one"):
        b = lay["edges"][0][1] - lay["edges"][0][0] if len(lay["edges"][0]) > 2 else None
        for e in lay["edges"]:
            if len(e) > 2:
                b = e[1] - e[0]
        if b is not None and all(e[k] == k * b for e in lay["edges"] for k in range(len(e) - 1)) \
                and all(e[-1] - e[-2] <= b for e in lay["edges"]) and rng.random() < 0.6:
            op["binspec"] = "chromsizes"
            op["binsize"] = b
    return op


THEMES = ["gen_c01", "gen_c06", "gen_c07", "gen_c08", "gen_c09", "gen_c17", "gen_c18", "gen_c15"]


def gen_c02(rng, fs, i, cfg):
    ctx = _ctx(cfg)
    if "theme" not in ctx:
        ctx["theme"] = rng.choice(THEMES)
    r0 = rng.random()
    if r0 < 0.10:
        return gen_cliload(rng, fs, i, cfg)
    if r0 < 0.16:
        return gen_clipairs(rng, fs, i, cfg)
    if r0 < 0.24:
        return gen_clitabix(rng, fs, i, cfg)
    op = globals()[ctx["theme"]](rng, fs, i, cfg)
    if op is None:
        # the theme is exhausted (e.g. zoomify done): continue with coarsen/merge chains
        have = [(f, p) for f in sorted(fs.files) for p in cooler_paths(fs, f)]
        if not have:
            return None
        return gen_coarsen_op(rng, fs, rng.choice(have), i)
    return op


# ===========================================================================
# C11: balancing
# ===========================================================================
MAPS = ["builtin", "eager", "pool.map", "pool.imap", "pool.imap_unordered", "pool.imap_unordered", "cli",
        "thread.map", "thread.imap_unordered", "stdlib.map", "stdlib.imap_unordered"]


def gen_balance_options(rng, n, nchroms):
    o = {}
    mode = rng.choice(["gw", "gw", "gw", "cis", "trans"])
    if mode == "cis":
        o["cis_only"] = True
    if mode == "trans" and nchroms >= 2:
        o["trans_only"] = True
    o["ignore_diags"] = rng.choice([0, 1, 1, 2, 2, 3])
    o["min_nnz"] = rng.choice([0, 0, 1, 2, 3, 10])
    o["min_count"] = rng.choice([0, 0, 0, 5, 20])
    o["mad_max"] = rng.choice([0, 0, 3, 5])
    o["tol"] = rng.choice([1e-5, 1e-3, 1e-8, 1e-2])
    o["max_iters"] = rng.choice([200, 50, 3, 1])
    if rng.random() < 0.2:
        o["blacklist"] = sorted(rng.sample(range(n), rng.randint(1, max(1, n // 4))))
    if rng.random() < 0.15:
        o["x0"] = [rng.choice([1.0, 1.0, 0.5, 2.0, 0.0]) for _ in range(n)]
    if rng.random() < 0.15:
        o["rescale"] = False
    return o


def gen_c11(rng, fs, i, cfg):
    ctx = _ctx(cfg)
    redo = None
    if i > 0 and "made" in ctx and ctx.get("support") is not None and rng.random() < 0.12:
        # the path is rewritten with another matrix in the same process and balanced again:
        # anything remembered per URI (and per span) from the earlier runs is stale now
        redo = rng.choice(["values", "values", "support", "layout", "boundaries", "boundaries"])
    if i == 0 or "made" not in ctx or redo:
        ctx["made"] = True
        lay = gen.gen_layout(rng, cfg.get("maxchroms", 3), cfg.get("maxbins", 7),
                             rng.choice(["fixed", "fixed", "variable", "fixed-exact", "mixed-one"]))
        if redo in ("values", "support"):
            lay = ctx["lay"]
        if redo == "boundaries":
            # the same number of bins, one bin moved from one chromosome to another: everything that
            # depends on chromosome membership (cis/trans filters) changes, sizes and spans do not
            import copy as _copy
            lay = _copy.deepcopy(ctx["lay"])
            donors = [c for c, e in enumerate(lay["edges"]) if len(e) > 2]
            if donors and len(lay["edges"]) >= 2:
                a = rng.choice(donors)
                b = rng.choice([c for c in range(len(lay["edges"])) if c != a])
                w = lay["edges"][a][-1] - lay["edges"][a][-2]
                lay["edges"][a].pop()
                lay["edges"][b].append(lay["edges"][b][-1] + max(1, w))
                lay["kind"] = "variable"
                redo = "values" if rng.random() < 0.7 else "support"
            else:
                lay = ctx["lay"]
                redo = "values"
        if rng.random() < 0.25:
            # Ensembl/NCBI style names that look like numbers ("1", "2", "03"): text files naming them
            # (a blacklist BED) must still be read as names
            pool_ = rng.choice([["1", "2", "3", "4", "5"], ["10", "2", "1", "22", "3"], ["01", "02", "03", "04", "05"]])
            lay = dict(lay, names=pool_[:len(lay["names"])])
        n = gen.nbins_of(lay)
        dens = rng.choice(["dense", "dense", "sparse", "sparse", "row"])
        support = gen.gen_support(rng, n, True, dens, cfg.get("maxpx", 90))
        # empty rows and isolated bins
        if n > 3 and rng.random() < 0.5:
            dead = rng.randrange(n)
            support = [p for p in support if dead not in p]
        if redo == "values":
            support = ctx["support"]      # same pixels (same nnz, same spans), other counts
        ctx["lay"], ctx["support"] = lay, support
        vals = [rng.randint(1, 30) for _ in support]
        if rng.random() < 0.12:
            # counts that float32 cannot represent (odd values beyond 2**24)
            vals = [(2**24 + 2 * rng.randint(0, 10**6) + 1) if rng.random() < 0.5 else v for v in vals]
        if rng.random() < 0.2:
            # explicitly stored zeros (valid; they arise from cancellation too): not "non-zero" pixels
            vals = [0 if rng.random() < 0.25 else v for v in vals]
        rec = gen.pixels_record(support, {"count": vals})
        op = {"op": "create", "layout": lay, "symmetric": True, "dtypes": {"count": "int32"}, "form": "df",
              "chunks": [rec], "arraychunk": None, "h5opts": {"compression": None, "shuffle": False},
              "metadata": None, "assembly": None, "bin_extra": None, "fault": None,
              "file": "f0", "path": rng.choice(["/", "/m"]), "mode": "a"}
        if redo:
            op["path"] = ctx["dest"][1]
        ctx["dest"] = ("f0", op["path"])
        ctx["n"] = n
        ctx["nnz"] = len(support)
        ctx["nchroms"] = len(lay["names"])
        return op
    f, p = ctx["dest"]
    n, nnz = ctx["n"], max(1, ctx["nnz"])
    opts = gen_balance_options(rng, n, ctx["nchroms"])
    small = nnz <= 60
    sizes = [nnz - 1, nnz, nnz + 1, max(1, nnz // 2), max(1, nnz // 3), 7, 10, 10_000_000]
    if small:
        sizes += [1, 2, 3]
        if opts["max_iters"] > 50:
            opts["max_iters"] = 50
    sizes = [s for s in sizes if s >= 1]
    configs = []
    for _ in range(rng.randint(3, 5)):
        m = rng.choice(MAPS)
        c = {"map": m, "chunksize": rng.choice(sizes), "policy": rng.choice(
            ["uniform", "reverse", "rotate", "starve", "sticky", "workers-first", "fifo"])}
        if m.startswith("pool") or m.startswith("thread") or m.startswith("stdlib") or m == "cli":
            c["nproc"] = rng.choice([2, 2, 3, 4])
        if m.startswith("pool") or m.startswith("thread") or m.startswith("stdlib"):
            c["use_lock"] = rng.random() < 0.3
            c["repeat"] = rng.random() < 0.4
        if m == "cli" and c["chunksize"] < 3 and not small:
            c["chunksize"] = 10
        if m == "cli":
            c["bed_header"] = rng.random() < 0.5
        elif rng.random() < 0.08:
            # one open of the file fails somewhere inside the run (a chunk read in the driver or in
            # a worker): the run may fail, it must never return other weights
            c["fail_open"] = rng.randint(1, 60)
            c["repeat"] = False
        configs.append(c)
    if rng.random() < 0.3:
        configs.append({"map": "builtin", "chunksize": None, "repeat": True})
    visit = []
    for _ in range(rng.randint(1, 2)):
        m = rng.choice(["builtin", "eager", "pool.map", "pool.imap", "pool.imap_unordered", "thread.map",
                        "thread.imap_unordered"])
        v = {"map": m, "chunksize": rng.choice([1, 2, 3, 5, nnz - 1 if nnz > 1 else 1, nnz, nnz + 1, 10_000_000]),
             "policy": rng.choice(["uniform", "reverse", "rotate"])}
        if m.startswith("pool") or m.startswith("thread"):
            v["nproc"] = rng.choice([2, 3, 4])
        visit.append(v)
    return {"op": "balance", "file": f, "path": p, "options": opts, "configs": configs, "visit": visit}


def gen_clipairs(rng, fs, i, cfg):
    """Pairs text whose binning is unambiguous (positions strictly inside their bins, 1-based)."""
    kind = rng.choice(["fixed", "fixed-exact", "variable", "longlast", "onebin", "mixed-one"])
    lay = gen.gen_layout(rng, cfg.get("maxchroms", 4), cfg.get("maxbins", 8), kind)
    n = gen.nbins_of(lay)
    symm = rng.random() < 0.7
    support = gen.gen_support(rng, n, symm, None, 25)
    counts = [rng.randint(1, 4) for _ in support]
    binof = []
    for c, e in enumerate(lay["edges"]):
        for s_, e_ in zip(e[:-1], e[1:]):
            binof.append((c, s_, e_))
    lines = []
    for (a, b), v in zip(support, counts):
        for _ in range(v):
            ca, sa, ea = binof[a]
            cb, sb, eb = binof[b]
            pa, pb = rng.randint(sa + 1, ea), rng.randint(sb + 1, eb)
            if symm and rng.random() < 0.5:
                lines.append([cb, pb, ca, pa])   # lower-triangle orientation: must be reflected
            else:
                lines.append([ca, pa, cb, pb])
    rng.shuffle(lines)
    rec = {"bin1_id": [p[0] for p in support], "bin2_id": [p[1] for p in support], "count": counts}
    fid = rng.choice(["f0", "f1"])
    total = len(lines)
    return {"op": "clipairs", "layout": lay, "symmetric": symm, "records": rec, "lines": lines, "file": fid,
            "path": _dest(rng, fs, fid, prefer_new=0.85), "mode": "a" if rng.random() < 0.85 else "w",
            "chunksize": rng.choice([1, 2, 3, 5, max(1, total // 2), total + 1, 10**6]),
            "max_merge": rng.choice([1, 2, 3, 200]), "mergebuf": rng.choice([None, 1, 3, 10**6])}


def gen_clitabix(rng, fs, i, cfg):
    """Upper-triangle pairs sorted by (chrom1, pos1), bgzipped and tabix-indexed by the op."""
    kind = rng.choice(["fixed", "fixed-exact", "variable", "mixed-one"])
    # (a .tbi index cannot address positions beyond 2**29: no scaled coordinates here)
    lay = gen.gen_layout(rng, cfg.get("maxchroms", 4), cfg.get("maxbins", 8), kind, noscale=True)
    n = gen.nbins_of(lay)
    support = gen.gen_support(rng, n, True, rng.choice([None, "dense", "sparse", "row"]), 30)
    if not support:
        support = [(0, 0)]
    counts = [rng.randint(1, 4) for _ in support]
    binof = []
    for c, e in enumerate(lay["edges"]):
        for s_, e_ in zip(e[:-1], e[1:]):
            binof.append((c, s_, e_))
    lines = []
    for (a, b), v in zip(support, counts):
        for _ in range(v):
            ca, sa, ea = binof[a]
            cb, sb, eb = binof[b]
            lines.append([ca, rng.randint(sa + 1, ea), cb, rng.randint(sb + 1, eb)])
    lines.sort(key=lambda t: (t[0], t[1], t[2], t[3]))
    rec = {"bin1_id": [p[0] for p in support], "bin2_id": [p[1] for p in support], "count": counts}
    return {"op": "clitabix", "layout": lay, "records": rec, "lines": lines, "symmetric": True,
            "file": rng.choice(["f4", "f5"]), "path": "/", "nproc": rng.choice([1, 2, 3, 4]),
            "max_split": rng.choice([1, 2, 3, 5]), "assembly": rng.choice([None, "hg19"])}
