"""Directed corner workloads: every batch begins with these fixed histories.
They go through the same engine, faults and oracles as the random ones, so
reaching the corners does not depend on luck and a known finding has a
deterministic trigger."""
from __future__ import annotations


def lay(names, edges, kind="directed"):
    return {"names": names, "edges": edges, "kind": kind}


def create(file, path, layout, px, symmetric=True, chunks=None, form="iter", dtypes=None, unordered=None,
           mode="a", **kw):
    """px: list of (i, j, count[, extra...]); chunks: list of sizes or None."""
    dtypes = dtypes or {"count": "int32"}
    cols = ["bin1_id", "bin2_id"] + list(dtypes)
    rec = {c: [p[k] for p in px] for k, c in enumerate(cols)}
    sizes = chunks if chunks is not None else [len(px)]
    out, lo = [], 0
    for s in sizes:
        out.append({c: v[lo:lo + s] for c, v in rec.items()})
        lo += s
    op = {"op": "create", "layout": layout, "symmetric": symmetric, "dtypes": dtypes, "form": form,
          "chunks": out, "arraychunk": None, "h5opts": None, "metadata": None, "assembly": None,
          "bin_extra": None, "fault": None, "file": file, "path": path, "mode": mode}
    if unordered:
        op["unordered"] = unordered
    op.update(kw)
    return op


L_FIXED = lay(["c1", "c2"], [[0, 4, 8, 10], [0, 4, 7]])          # width 4, short last bins
L_VAR = lay(["c1", "c2"], [[0, 10, 20, 45, 60], [0, 7, 20]])       # coarsened by 2 looks uniform, long last bin
L_ONE = lay(["g"], [[0, 5]])                                       # single-bin genome
L_SHORT = lay(["a", "b", "c"], [[0, 2], [0, 2, 4, 5], [0, 2]])     # chromosomes shorter than the factor
L_W1 = lay(["c1", "c2"], [[0, 1, 2, 3, 4, 5, 6, 7, 8, 9, 10, 11, 12], [0, 1, 2, 3, 4, 5, 6]], "fixed1")
PX5 = [(0, 0, 3), (0, 2, 1), (1, 1, 2), (1, 4, 5), (2, 3, 1), (3, 3, 7), (4, 4, 2)]


def un(mergebuf, max_merge, ensure_sorted=False):
    return {"mergebuf": mergebuf, "max_merge": max_merge, "ensure_sorted": ensure_sorted}


def c06():
    out = []
    for nchunk, mm in ((2, 1), (3, 1), (3, 2), (4, 1), (5, 2)):
        chunks = []
        for k in range(nchunk):
            chunks.append([PX5[(k + t) % len(PX5)] for t in range(3)])
        flat = sum(([sorted(c)] for c in chunks), [])
        op = create("f0", "/u", L_FIXED, sum(flat, []), chunks=[len(c) for c in flat], unordered=un(2, mm))
        out.append([op])
    # a large bin table with narrow (int32) ids, unsorted chunks + ensure_sorted: any packed
    # (bin1 * n_bins + bin2) key computed in 32 bits wraps beyond 46340 bins
    big = lay(["L"], "uniform:50000:1")
    hi = [(46341 + 7 * k, 46341 + 7 * k + (k % 5), 1 + k % 3) for k in range(60)] + \
         [(k * 811, k * 811 + 3, 2) for k in range(40)]
    import random as _r
    rr = _r.Random(5)
    c1, c2 = hi[::2], hi[1::2]
    rr.shuffle(c1)
    rr.shuffle(c2)
    for mm in (200, 1):
        op = create("f0", "/u", big, c1 + c2, chunks=[len(c1), len(c2)], unordered=un(7, mm, True), id_dtype="int32")
        out.append([op])
    # all-empty inputs: zero chunks, one empty chunk, leading empty rows with buffer 1
    # (zero chunks is outside C06's quantifier "1..k chunks": CoolerMerger([]) raises IndexError; not generated)
    out.append([create("f0", "/u", L_FIXED, [], chunks=[0], unordered=un(1, 200))])
    out.append([create("f0", "/u", L_FIXED, [(3, 3, 7), (4, 4, 2)], chunks=[1, 1], unordered=un(1, 200))])
    return out


def _wide_shuffled():
    """One data frame handed over unsorted (create_cooler sorts it) with narrow (int32) ids over a
    large bin table: a packed (bin1 * n_bins + bin2) sort key computed in 32 bits wraps beyond
    46 340 bins."""
    import random as _r
    big = lay(["L"], "uniform:50000:1")
    px = [(46341 + 7 * k, 46341 + 7 * k + (k % 5), 1 + k % 3) for k in range(60)] + \
         [(k * 811, k * 811 + 3, 2) for k in range(40)]
    _r.Random(11).shuffle(px)
    return [create("f0", "/w", big, px, form="df", id_dtype="int32")]


def c01():
    return [
        _wide_shuffled(),
        # an I/O error surfaces when a chunk is flushed: the creation may fail, it must not report
        # success over a table that holds a chunk twice
        [create("f0", "/a", L_FIXED, PX5, chunks=[3, 2, 2], form="iter", fault={"kind": "F10", "flush": k})
         for k in (0, 1, 2)],
        # a small chunk followed by a chunk larger than any plausible write-buffer threshold
        # (65 536 rows), then small ones again: order and offsets across buffering boundaries
        [{"op": "bigcreate", "file": "f0", "path": "/big", "nbins": [300, 200], "splits": [0.0001, 0.0001, 0.7, 0.7001]}],
        [create("f0", "/", L_ONE, [(0, 0, 9)], form="df")],
        [create("f0", "/a", L_FIXED, [], chunks=[], form="iter")],
        [create("f0", "/a", L_FIXED, PX5, chunks=[0, 3, 0, 0, 4, 0], form="iterdict")],
        [create("f0", "/a", L_FIXED, [(i, j, 1) for i in range(5) for j in range(5)], symmetric=False, form="dict")],
    ]


def c07():
    e1 = create("f0", "/e1", L_FIXED, [], chunks=[0])
    e2 = create("f0", "/e2", L_FIXED, [], chunks=[0])
    big1 = create("f0", "/b1", L_FIXED, [(0, 1, 2**30 + 5), (1, 1, 7)])
    big2 = create("f1", "/b2", L_FIXED, [(0, 1, 2**30 + 5), (2, 2, 1)])
    m = lambda ins, buf=10: {"op": "merge", "file": "f2", "path": "/m", "mode": "a", "mergebuf": buf,
                             "inputs": [{"file": f, "path": p} for f, p in ins], "columns": None, "agg": None,
                             "fault": None}
    # more inputs than any internal fan-in threshold (unordered creation uses 200), with an
    # aggregate that is not associative over batches
    tiny = lay(["t"], [[0, 1, 2, 3]])
    # (5 inputs per file: every operation re-verifies all collections of the file it touches)
    many = [create("g%d" % (k // 5), "/i%d" % k, tiny, [(k % 3, 2, 1 + k % 4), (0, k % 3, 2)] if k % 3 else [(0, 0, 5)],
                   form="df") for k in range(205)]
    mm = m([("g%d" % (k // 5), "/i%d" % k) for k in range(205)], 50)
    mm["agg"] = {"count": "count"}
    return [
        [e1, e2, m([("f0", "/e1"), ("f0", "/e2")])],
        [e1, m([("f0", "/e1")], 1)],
        [big1, big2, m([("f0", "/b1"), ("f1", "/b2")])],
        many + [mm],
    ]


def c08():
    src = create("f0", "/s", L_VAR, [(0, 1, 1), (0, 3, 2), (2, 3, 5), (3, 5, 1), (4, 4, 2), (4, 5, 3)])
    sh = create("f0", "/s", L_SHORT, [(0, 0, 1), (0, 1, 2), (1, 3, 4), (2, 2, 1), (3, 4, 2), (4, 4, 5)])
    co = lambda k, cs, nproc=1, file="f0": {"op": "coarsen", "prop": "C08", "src": {"file": "f0", "path": "/s"},
                                            "file": file, "path": "/c", "mode": "a", "factor": k,
                                            "chunksize": cs, "nproc": nproc, "columns": None, "agg": None,
                                            "cli": False, "fault": None}
    # the same URI coarsened twice by the same factor with a pool, over another table in between
    # (anything keyed by URI/factor in the parent, or inherited at fork time, is stale)
    fx = create("f0", "/s", L_FIXED, PX5)
    again = [dict(co(2, 2, 2, "f1"), path="/c1"), sh, dict(co(2, 2, 2, "f1"), path="/c2"), fx,
             dict(co(2, 1, 3, "f1"), path="/c3")]
    return [[src, co(2, 2)], [src, co(2, 100, 2)], [sh, co(3, 1)], [sh, co(2, 2, 3, "f1")], [sh, co(6, 3)],
            [src] + again]


def c09():
    anc = create("f0", "/", L_W1, [(i, j, 1 + (i * 7 + j) % 5) for i in range(18) for j in range(i, 18, 3)])
    z = lambda res, nproc=1: {"op": "zoomify", "file": "f2", "bases": [{"file": "f0", "path": "/"}],
                              "resolutions": res, "chunksize": 5, "nproc": nproc, "cli": False, "columns": None,
                              "as_list": True}
    # legacy layout: > 4 x 256 bins so that three zoom levels below the base exist (each must be
    # the base coarsened by 2, 4, 8 - the chain 2 x 2 x 2)
    wide = lay(["L1", "L2"], "uniform:700:3,uniform:600:3")
    lpx = [(i, min(1299, i + (i * 7) % 11), 1 + i % 4) for i in range(0, 1300, 3)]
    lsrc = create("f0", "/", wide, sorted(set(lpx)), form="df")
    lz = lambda nproc, cli=False: {"op": "legacyzoom", "src": {"file": "f0", "path": "/"}, "chunksize": 150,
                                   "nproc": nproc, "cli": cli}
    # one list object of target resolutions handed to two zoomify calls over bases of different
    # widths (the caller's list must mean the same both times), finer base first and coarser first
    w2 = lay(["c1", "c2"], [[0, 2, 4, 6, 8, 10, 12], [0, 2, 4, 6]])
    w4 = lay(["c1", "c2"], [[0, 4, 8, 12], [0, 4, 6]])
    b2 = create("f1", "/", w2, [(i, j, 1 + (i + 2 * j) % 4) for i in range(9) for j in range(i, 9, 2)])
    b4 = create("f3", "/", w4, [(i, j, 2 + (i + j) % 3) for i in range(5) for j in range(i, 5)])
    zz = lambda src, out, res, how: dict(z(res), bases=[{"file": src, "path": "/"}], file=out, res_object=how)
    shared = [[b2, b4, zz("f1", "f2", [8, 16], "keep"), zz("f3", "f4", [8, 16], "reuse")],
              [b2, b4, zz("f3", "f4", [12, 24], "keep"), zz("f1", "f2", [12, 24], "reuse")]]
    # two bases that are not nested (widths 4 and 6): 10 is a multiple of their common divisor and of
    # neither base - not derivable, the request must be refused (12 and 8 alone are fine)
    w6 = lay(["c1", "c2"], [[0, 6, 12], [0, 6]])
    b6 = create("f5", "/", w6, [(0, 0, 3), (0, 1, 4), (1, 2, 1), (2, 2, 6)])
    two = lambda res: dict(z(res), bases=[{"file": "f3", "path": "/"}, {"file": "f5", "path": "/"}], file="f2")
    return [[anc, z([2, 3, 6])], [anc, z([6, 3, 2, 1], 3)], [anc, z([4, 12, 2], 2)], [anc, z([2, 5, 7])],
            [lsrc, lz(1), lz(2, True)]] + shared + [[b4, b6, two([12, 10, 8])], [b4, b6, two([12, 8, 24])]]


def c15():
    a = create("f0", "/a", L_FIXED, PX5)
    b = create("f0", "/b/c", L_FIXED, PX5[:3])
    f = lambda kind, sf, sp, df, dp, **kw: dict({"op": kind, "src": {"file": sf, "path": sp},
                                                 "dst": {"file": df, "path": dp}}, **kw)
    return [
        [a, f("mv", "f0", "/a", "f0", "/moved")],
        [a, f("ln", "f0", "/a", "f1", "/ext", soft=True)],
        [a, f("ln", "f0", "/a", "f0", "/s", soft=True), f("mv", "f0", "/a", "f0", "/gone")],
        [a, b, create("f0", "/", L_ONE, [(0, 0, 1)]), create("f0", "/", L_FIXED, PX5)],
        [a, f("ln", "f0", "/a", "f0", "/h"), create("f0", "/h", L_ONE, [(0, 0, 4)])],
        [a, f("cp", "f0", "/a", "f1", "/"), f("cp", "f0", "/a", "f1", "/n/m")],
    ]


def c17():
    cells = {"grp/c3": {"chunks": [{"bin1_id": [0], "bin2_id": [1], "count": [2]}], "form": "df", "bin_extra": None},
             "cell10": {"chunks": [{"bin1_id": [], "bin2_id": [], "count": []}], "form": "df", "bin_extra": None},
             "cell2": {"chunks": [{"bin1_id": [1, 2], "bin2_id": [1, 4], "count": [5, 6]}], "form": "iter",
                       "bin_extra": None}}
    return [[{"op": "scool", "layout": L_FIXED, "symmetric": True, "dtypes": {"count": "int32"}, "cells": cells,
              "bins_as_dict": False, "metadata": None, "assembly": None, "fault": None, "file": "f0", "mode": "w"}]]


def c18():
    many_names = ["c%d" % k for k in range(2000)]
    a = create("f0", "/a", L_FIXED, PX5)
    ln = lambda soft: {"op": "ln", "soft": soft, "src": {"file": "f0", "path": "/a"}, "dst": {"file": "f0", "path": "/l"}}
    rn = lambda path, m, held=False: {"op": "rename", "file": "f0", "path": path, "map": m, "held": held}
    cells = {"A": {"chunks": [{"bin1_id": [0], "bin2_id": [1], "count": [2]}], "form": "df", "bin_extra": None},
             "B": {"chunks": [{"bin1_id": [1, 2], "bin2_id": [1, 4], "count": [5, 6]}], "form": "df", "bin_extra": None}}
    sc = {"op": "scool", "layout": L_FIXED, "symmetric": True, "dtypes": {"count": "int32"}, "cells": cells,
          "bins_as_dict": False, "metadata": None, "assembly": None, "fault": None, "file": "f1", "mode": "w"}
    rs = {"op": "rename", "file": "f1", "path": "/cells/A", "map": {"c1": "chrONE"}, "held": False}
    return [
        [sc, rs],
        [a, ln(False), rn("/l", {"c1": "chromosome_one"}), rn("/a", {"c2": "x"})],
        [a, ln(True), {"op": "hold", "file": "f0", "path": "/a"}, rn("/l", {"c1": "c2", "c2": "c1"}),
         rn("/a", {"c1": "z"}, held=True)],
        [a, {"op": "intify", "file": "f0", "path": "/a"}, rn("/a", {"c2": "a-much-longer-name-than-before"})],
        # thousands of contigs renamed to long names: the enumerated type of the bin table's chromosome
        # column no longer fits an HDF5 object header (64 KiB) and the labels must be stored another way
        [create("f0", "/", lay(many_names, [[0, 5]] * len(many_names)), [(0, 1, 1), (1, 7, 2), (5, 1999, 3), (1999, 1999, 4)],
                form="df"),
         rn("/", {nm: "scaffold_%06d_unplaced_genomic_contig" % k for k, nm in enumerate(many_names)}),
         rn("/", {"scaffold_000007_unplaced_genomic_contig": "x7"}, held=True)],
    ]


def c11():
    px = [(i, j, 1 + (3 * i + j) % 7) for i in range(10) for j in range(i, 10)]
    a = create("f0", "/", lay(["c1", "c2"], [[0, 2, 4, 6, 8, 10, 12], [0, 2, 4, 6, 8]]), px, form="df")
    opts = {"ignore_diags": 0, "min_nnz": 0, "min_count": 0, "mad_max": 0, "tol": 1e-8, "max_iters": 200}
    b = {"op": "balance", "file": "f0", "path": "/", "options": opts,
         "configs": [{"map": "pool.imap_unordered", "chunksize": 7, "nproc": 3, "policy": "reverse", "repeat": True}],
         "visit": [{"map": "pool.imap", "chunksize": 4, "nproc": 2, "policy": "rotate"}]}
    b2 = dict(b, options=dict(opts, ignore_diags=1))
    # the path is rewritten (same pixels, other counts - same spans) between two balancing runs of
    # one process whose chunk size covers the whole table
    px2 = [(i, j, 1 + (5 * i + 2 * j) % 9) for i in range(10) for j in range(i, 10)]
    a2 = create("f0", "/", lay(["c1", "c2"], [[0, 2, 4, 6, 8, 10, 12], [0, 2, 4, 6, 8]]), px2, form="df")
    whole = {"op": "balance", "file": "f0", "path": "/", "options": dict(opts, ignore_diags=1),
             "configs": [{"map": "builtin", "chunksize": None}], "visit": []}
    # ... and rewritten over a table of the same size whose chromosome boundary moved, balanced per
    # chromosome (cis only) before and after
    a3 = create("f0", "/", lay(["c1", "c2"], [[0, 2, 4, 6, 8, 10], [0, 2, 4, 6, 8, 10]]), px2, form="df")
    cis = {"op": "balance", "file": "f0", "path": "/", "options": dict(opts, ignore_diags=1, cis_only=True),
           "configs": [{"map": "builtin", "chunksize": 7}, {"map": "pool.map", "chunksize": 9, "nproc": 2}], "visit": []}
    return [[a, b], [a, b2], [a, whole, a2, whole], [a, cis, a3, cis]]


def c02(tier="quick"):
    # > 1e6 pixels: the real 1_000_000-row block boundary of index_pixels (knob off; an index builder
    # that no longer goes through rlencode is not reached by the knob). Cheap enough (2-3 s) for the
    # quick tier; the thorough tier adds a second size whose boundary falls elsewhere.
    # an I/O error surfaces when the second chunk is flushed: the creation may fail, it must not
    # report success over a table that holds a chunk twice
    f10 = [create("f0", "/a", L_FIXED, PX5, chunks=[3, 2, 2], form="iter", fault={"kind": "F10", "flush": k})
           for k in (0, 1, 2)]
    # a collection re-created at the same path (root and nested) with a value column of the other
    # type class (integer counts, then fractional float counts, then integers again): the recorded
    # total must follow - in value and in kind
    fpx = [(i, j, 0.5 + (i + 2 * j) % 4) for (i, j, _c) in PX5]
    retype = [[create("f0", p_, L_FIXED, PX5), create("f0", p_, L_FIXED, fpx, dtypes={"count": "float64"}),
               create("f0", p_, L_FIXED, PX5[:4])] for p_ in ("/", "/n/a")]
    big = [[{"op": "bigcreate", "file": "f0", "path": "/", "nbins": [1000, 500], "splits": [0.3, 0.3, 0.9]}],
           _wide_shuffled(), f10] + retype
    if tier == "thorough":
        big.append([{"op": "bigcreate", "file": "f0", "path": "/b", "nbins": [700, 900, 450], "splits": [0.5]}])
    return big


DIRECTED = {"C02": c02, "C01": c01, "C06": c06, "C07": c07, "C08": c08, "C09": c09, "C11": c11, "C15": c15, "C17": c17,
            "C18": c18}
