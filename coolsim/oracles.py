"""Oracles: every observation re-reads from disk (no cached Cooler objects)."""
from __future__ import annotations

import warnings

import h5py
import numpy as np

from .model import INDET, Coll

MAGIC = "HDF5::Cooler"


def _eq_arrays(a, b):
    a = np.asarray(a)
    b = np.asarray(b)
    if a.shape != b.shape:
        return False
    if a.dtype.kind == "f" or b.dtype.kind == "f":
        return bool(np.array_equal(a, b, equal_nan=True))
    return bool(np.array_equal(a, b))


def check_read(uri, coll, label="", deep=True, cooler_obj=None):
    """O-read: the collection at `uri` reads back equal to the model `coll`
    through the ordinary interface.  Returns a list of mismatch strings."""
    import cooler

    errs = []
    try:
        with warnings.catch_warnings():
            warnings.simplefilter("ignore")
            c = cooler_obj if cooler_obj is not None else cooler.Cooler(uri)
            if c.chromnames != coll.chromnames:
                errs.append("chromnames %r != %r" % (c.chromnames, coll.chromnames))
            if [int(x) for x in c.chromsizes.values] != coll.lengths:
                errs.append("chromsizes %r != %r" % (list(c.chromsizes.values), coll.lengths))
            ct = c.chroms()[:]
            if list(ct["name"]) != coll.chromnames or [int(x) for x in ct["length"]] != coll.lengths:
                errs.append("chroms table mismatch")
            bt = c.bins()[:]
            exp_chrom = [coll.chromnames[i] for i in coll.bins["chrom"].values]
            if [str(x) for x in bt["chrom"].tolist()] != exp_chrom:
                errs.append("bins.chrom labels %r != %r" % (bt["chrom"].tolist()[:6], exp_chrom[:6]))
            if not _eq_arrays(bt["start"].values, coll.bins["start"].values):
                errs.append("bins.start mismatch")
            if not _eq_arrays(bt["end"].values, coll.bins["end"].values):
                errs.append("bins.end mismatch")
            for k, v in coll.bin_extra.items():
                if k not in bt.columns:
                    errs.append("bin column %s missing" % k)
                elif not _eq_arrays(bt[k].values, v):
                    errs.append("bin column %s mismatch" % k)
            px = c.pixels()[:]
            exp = coll.pixels
            if sorted(px.columns) != sorted(exp.columns):
                errs.append("pixel columns %r != %r" % (list(px.columns), list(exp.columns)))
            else:
                if len(px) != len(exp):
                    errs.append("nnz %d != %d" % (len(px), len(exp)))
                else:
                    approx = getattr(coll, "approx_cols", ())
                    for col in exp.columns:
                        if col in approx:
                            if not np.allclose(px[col].values.astype(float), exp[col].values.astype(float),
                                               rtol=1e-9, atol=1e-12, equal_nan=True):
                                errs.append("pixels.%s differs from the model beyond rounding" % col)
                            continue
                        if not _eq_arrays(px[col].values, exp[col].values):
                            bad = np.flatnonzero(px[col].values != exp[col].values)[:3]
                            errs.append("pixels.%s differs at rows %s: got %s want %s" % (
                                col, bad.tolist(), px[col].values[bad].tolist(),
                                exp[col].values[bad].tolist()))
                        if col not in ("bin1_id", "bin2_id") and px[col].dtype != exp[col].dtype and \
                                str(px[col].dtype) not in getattr(coll, "dtype_alternatives", {}).get(col, ()):
                            errs.append("pixels.%s dtype %s != %s" % (col, px[col].dtype, exp[col].dtype))
            if deep and not errs:
                for col in [c_ for c_ in coll.value_columns if c_ not in getattr(coll, "approx_cols", ())]:
                    m = c.matrix(field=col, balance=False)[:]
                    want = coll.dense(col)
                    if m.shape != want.shape or not _eq_arrays(m, want):
                        errs.append("matrix(%s) differs from model" % col)
                    ms = c.matrix(field=col, balance=False, sparse=True)[:]
                    if not _eq_arrays(ms.toarray(), want):
                        errs.append("sparse matrix(%s) differs from model" % col)
            if deep and not errs and coll.nbins:
                # by-chromosome access (the chromosome index): a few chromosomes, first and last included
                ch_ids = coll.bins["chrom"].values
                idx = sorted(set(list(range(min(3, len(coll.chromnames)))) + [len(coll.chromnames) - 1]))
                want0 = coll.dense("count") if "count" in coll.value_columns and len(coll.chromnames) <= 50 else None
                for ci in idx:
                    rows = np.flatnonzero(ch_ids == ci)
                    if not len(rows):
                        continue
                    lo, hi = int(rows[0]), int(rows[-1]) + 1
                    nm = coll.chromnames[ci]
                    ext = tuple(int(x) for x in c.extent(nm))
                    if ext != (lo, hi):
                        errs.append("extent(%r) = %r, the model's bins of that chromosome are [%d, %d)" % (nm, ext, lo, hi))
                        continue
                    if want0 is not None and "count" not in getattr(coll, "approx_cols", ()):
                        sub = c.matrix(balance=False).fetch(nm)
                        if not _eq_arrays(sub, want0[lo:hi, lo:hi]):
                            errs.append("matrix().fetch(%r) differs from the model's block" % (nm,))
            info = c.info
            if info.get("metadata") != coll.metadata:
                errs.append("metadata %r != %r" % (info.get("metadata"), coll.metadata))
            if info.get("genome-assembly") != coll.assembly:
                errs.append("assembly %r != %r" % (info.get("genome-assembly"), coll.assembly))
            if info.get("nbins") != coll.nbins:
                errs.append("info.nbins %r" % info.get("nbins"))
            if info.get("nnz") != len(exp):
                errs.append("info.nnz %r != %d" % (info.get("nnz"), len(exp)))
            want_mode = "symmetric-upper" if coll.symmetric else "square"
            if getattr(coll, "no_mode_attr", False) and info.get("storage-mode") is None:
                if c.storage_mode != "symmetric-upper":
                    errs.append("a collection without the storage-mode attribute must read as symmetric-upper")
            elif info.get("storage-mode") != want_mode:
                errs.append("storage-mode %r != %r" % (info.get("storage-mode"), want_mode))
    except Exception as e:  # reading an acknowledged collection must not fail
        errs.append("read raised %s: %s" % (type(e).__name__, str(e)[:200]))
    return [label + x for x in errs]


def _rle_offsets(ids, n):
    """Independent run-length index: offsets[v] = first row with id >= v."""
    off = np.zeros(n + 1, dtype=np.int64)
    pos = 0
    m = len(ids)
    for v in range(n + 1):
        while pos < m and ids[pos] < v:
            pos += 1
        off[v] = pos
    return off


def check_struct(filepath, grouppath, label=""):
    """O-struct (C02): re-derive every structural invariant of the published
    schema from the raw HDF5 datasets."""
    from .model import true_binsize

    errs = []
    try:
        with h5py.File(filepath, "r") as f:
            g = f[grouppath]
            for name in ("chroms", "bins", "pixels", "indexes"):
                if name not in g:
                    return [label + "missing group %s" % name]
            a = dict(g.attrs)
            px = g["pixels"]
            cols = list(px.keys())
            lens = {k: px[k].shape[0] for k in cols}
            nnz = int(a.get("nnz", -1))
            if len(set(lens.values())) != 1:
                errs.append("pixel columns differ in length: %r" % lens)
            if any(v != nnz for v in lens.values()):
                errs.append("pixel column length %r != nnz attr %d" % (lens, nnz))
            b1 = px["bin1_id"][:].astype(np.int64)
            b2 = px["bin2_id"][:].astype(np.int64)
            nb = g["bins/start"].shape[0]
            for k in ("chrom", "start", "end"):
                if g["bins"][k].shape[0] != nb:
                    errs.append("bins.%s length" % k)
            if int(a.get("nbins", -1)) != nb:
                errs.append("nbins attr %r != %d" % (a.get("nbins"), nb))
            nch = g["chroms/name"].shape[0]
            if g["chroms/length"].shape[0] != nch:
                errs.append("chroms columns differ in length")
            if int(a.get("nchroms", -1)) != nch:
                errs.append("nchroms attr %r != %d" % (a.get("nchroms"), nch))
            if len(b1) == len(b2) and len(b1):
                if b1.min() < 0 or b2.min() < 0 or b1.max() >= nb or b2.max() >= nb:
                    errs.append("bin id out of range")
                d1 = np.diff(b1)
                d2 = np.diff(b2)
                if not np.all((d1 > 0) | ((d1 == 0) & (d2 > 0))):
                    k = int(np.flatnonzero(~((d1 > 0) | ((d1 == 0) & (d2 > 0))))[0])
                    errs.append("pixels not strictly increasing at row %d: (%d,%d)->(%d,%d)" % (
                        k, b1[k], b2[k], b1[k + 1], b2[k + 1]))
                mode = a.get("storage-mode", "symmetric-upper")
                if mode == "symmetric-upper" and np.any(b1 > b2):
                    errs.append("lower-triangle pixel in symmetric-upper collection")
            off = g["indexes/bin1_offset"][:]
            want = _rle_offsets(b1, nb)
            if off.shape != want.shape or not np.array_equal(off, want):
                errs.append("bin1_offset is not the run-length index of bin1_id: got %s want %s" % (
                    off.tolist()[:12], want.tolist()[:12]))
            chrom_ids = g["bins/chrom"][:].astype(np.int64)
            coff = g["indexes/chrom_offset"][:]
            wantc = _rle_offsets(chrom_ids, nch)
            if coff.shape != wantc.shape or not np.array_equal(coff, wantc):
                errs.append("chrom_offset is not the run-length index of bins/chrom")
            if len(chrom_ids) and (chrom_ids.min() < 0 or chrom_ids.max() >= nch or np.any(np.diff(chrom_ids) < 0)):
                errs.append("bins/chrom not sorted / out of range")
            if "count" in cols and len(set(lens.values())) == 1:
                cnt = px["count"][:]
                s = a.get("sum")
                if cnt.dtype.kind in "iu":
                    tot = int(cnt.astype(object).sum()) if len(cnt) else 0
                    if s is None or int(s) != tot:
                        errs.append("sum attr %r != total of count column %d" % (s, tot))
                else:
                    tot = float(cnt.sum()) if len(cnt) else 0.0
                    if s is None or not np.isclose(float(s), tot, rtol=1e-12, atol=0):
                        errs.append("sum attr %r != total of count column %r" % (s, tot))
            starts = g["bins/start"][:].astype(np.int64)
            ends = g["bins/end"][:].astype(np.int64)
            lengths = [int(x) for x in g["chroms/length"][:]]
            if np.any(ends <= starts):
                errs.append("empty or negative-width bin")
            # chromosome lengths are the ends of the last bins
            for cidx in range(nch):
                m = chrom_ids == cidx
                if m.any():
                    if int(ends[m][-1]) != lengths[cidx]:
                        errs.append("chrom %d length %d != end of its last bin %d" % (
                            cidx, lengths[cidx], int(ends[m][-1])))
            btype = a.get("bin-type")
            bsize = a.get("bin-size")
            tb, amb = true_binsize(chrom_ids, starts, ends, lengths)
            if btype == "fixed":
                if tb is None or int(bsize) != tb:
                    errs.append("bin-type fixed / bin-size %r but the bin table is not the uniform "
                                "tiling of that width (true size: %r)" % (bsize, tb))
            elif btype == "variable":
                if bsize != "null":
                    errs.append("bin-type variable but bin-size %r" % (bsize,))
            else:
                errs.append("bin-type %r" % (btype,))
            if a.get("format") != MAGIC:
                errs.append("format attr %r" % a.get("format"))
    except Exception as e:
        errs.append("struct check raised %s: %s" % (type(e).__name__, str(e)[:200]))
    return [label + x for x in errs]


def check_listing(fs, fid, filepath, label=""):
    """O-list: list_coolers == model's recognised paths; is_cooler truth table."""
    import cooler
    from cooler import fileops
    from cooler.util import natsorted

    errs = []
    want = natsorted(list(fs.coolers(fid).keys()))
    try:
        with warnings.catch_warnings():
            warnings.simplefilter("ignore")
            got = fileops.list_coolers(filepath)
        if got != want:
            errs.append("list_coolers %r != model %r" % (got, want))
    except Exception as e:
        errs.append("list_coolers raised %s: %s" % (type(e).__name__, str(e)[:160]))
    # truth table: every walked path + a few others
    probes = []
    for p, n in fs.walk(fid):
        rec = n is not None and n.kind == "group" and n.coll is not None
        probes.append((p, rec))
    probes.append(("/__missing__", False))
    probes.append(("/__missing__/deeper", False))
    for p, n in fs.walk(fid):
        if n is not None and n.kind == "group" and isinstance(n.coll, Coll):
            probes.append((p.rstrip("/") + "/bins/start", False))   # a dataset path
            probes.append((p.rstrip("/") + "/pixels", False))       # a sub-group
            break
    for p, rec in probes:
        for spelled in {p, p.lstrip("/") or "/"}:
            uri = filepath + "::" + spelled
            try:
                with warnings.catch_warnings():
                    warnings.simplefilter("ignore")
                    got = fileops.is_cooler(uri)
                if bool(got) != rec:
                    errs.append("is_cooler(::%s) = %r, model says %r" % (spelled, got, rec))
            except Exception as e:
                errs.append("is_cooler(::%s) raised %s (must be %r, not an error)" % (
                    spelled, type(e).__name__, rec))
    return [label + x for x in errs]


STANDARD_ATTRS = {"bin-type", "bin-size", "storage-mode", "nchroms", "nbins", "sum", "nnz", "genome-assembly",
                  "metadata", "creation-date", "generated-by", "format", "format-version", "format-url", "ncells"}


def check_unrelated(fs, fid, filepath, label=""):
    """Planted attributes and datasets are byte-equal to what was planted."""
    errs = []
    try:
        with h5py.File(filepath, "r") as f:
            for p, n in fs.walk(fid):
                if n is None:
                    continue
                try:
                    obj = f[p]
                except KeyError:
                    errs.append("planted object %s vanished" % p)
                    continue
                if n.kind == "group" and not n.dirty and n.coll is not INDET:
                    # nothing but the planted attributes and (on a collection) the standard ones
                    extra = set(obj.attrs.keys()) - set(n.attrs) - STANDARD_ATTRS
                    if n.coll is None and n.tag is None:
                        extra = set(obj.attrs.keys()) - set(n.attrs)
                    if extra:
                        errs.append("stale attribute(s) %s on %s" % (sorted(extra), p))
                for k, v in n.attrs.items():
                    if k not in obj.attrs:
                        errs.append("attribute %s@%s vanished" % (k, p))
                    else:
                        got = obj.attrs[k]
                        got = got.tolist() if hasattr(got, "tolist") else got
                        if got != v:
                            errs.append("attribute %s@%s changed: %r != %r" % (k, p, got, v))
                if n.kind == "dataset":
                    if not isinstance(obj, h5py.Dataset) or obj[:].tolist() != n.data:
                        errs.append("dataset %s changed" % p)
    except Exception as e:
        errs.append("unrelated check raised %s: %s" % (type(e).__name__, str(e)[:160]))
    return [label + x for x in errs]


def not_recognised(filepath, grouppath, label=""):
    """O-fail: destination is not a cooler by any of the three observers."""
    import os

    import cooler
    from cooler import fileops

    errs = []
    if not os.path.exists(filepath) or not h5py.is_hdf5(filepath):
        return errs
    with warnings.catch_warnings():
        warnings.simplefilter("ignore")
        try:
            with h5py.File(filepath, "r") as f:
                try:
                    fmt = f[grouppath].attrs.get("format")
                except KeyError:
                    fmt = None      # missing path or dangling link: certainly not a cooler
        except Exception as e:
            return [label + "cannot inspect destination: %s" % e]
        if fmt == MAGIC:
            errs.append("destination %s carries the cooler format attribute" % grouppath)
        try:
            lst = fileops.list_coolers(filepath)
            if grouppath in lst:
                errs.append("destination %s is listed as a cooler" % grouppath)
        except Exception as e:
            errs.append("list_coolers raised %s: %s" % (type(e).__name__, str(e)[:120]))
        try:
            r = fileops.is_cooler(filepath + "::" + grouppath)
            if r:
                errs.append("is_cooler(%s) is True" % grouppath)
        except KeyError:
            pass  # missing path: C15's business (must be False, not an error)
        except Exception as e:
            errs.append("is_cooler raised %s" % type(e).__name__)
    return [label + x for x in errs]
