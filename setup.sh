#!/bin/sh
# Offline setup: nothing to build. Verify the interpreter, the dependencies the
# simulator needs, and that `cooler` resolves to the current /repo working tree.
set -e
cd "$(dirname "$0")"
PYTHONPATH="$(pwd):/repo/src" /venv/bin/python - <<'PY'
import dill, h5py, numpy, pandas, multiprocess, click
import cooler, os
assert os.path.realpath(cooler.__file__).startswith("/repo/src/"), cooler.__file__
import coolsim.seams as s
s.install()
print("setup ok: cooler", cooler.__version__, "h5py", h5py.__version__)
PY
mkdir -p evidence replays
